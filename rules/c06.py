"""C06 — responses are framed: ';' between units, ',' between items, one terminator."""
from sa import cfg as C
from sa import paths as P
from . import common as K

CONFIGS_QUICK = ["A"]
CONFIGS_THOROUGH = ["A", "B", "C", "D", "E"]

EXPLANATION = (
    "Static, clause-level decision of C06. Decided: (F1) in every function that writes item data "
    "(callers of writeData other than the separator writers) no data write happens on a path "
    "that has not passed the item-separator writer, and every path that wrote data leaves the "
    "per-unit item count incremented (three-bit may-state (delimited, wrote, counted) propagated "
    "through the CFG with callee effect summaries); the definite-length block pair is the one "
    "table-listed exception and has its own obligation (every non-error path of the data call "
    "evaluates `remaining == 0` and counts the item on its true edge). The ',' write is guarded by "
    "item count > 0. (F2) no unit separator is written on a path that afterwards reaches the "
    "handler invocation (a handler may answer nothing or fail) - violated today, recorded as a "
    "known finding. (F5) every ';' write is guarded by 'an earlier unit responded', and that flag "
    "is cleared only after the handler ran. (F3) SCPI_Parse initialises the flag before the unit "
    "loop and every path from the loop to the return passes through exactly one terminator "
    "writer, in which the line-ending write and the flush sit on the same !first_output edge. (F4) "
    "separator constants. NOT decided: byte-exact output for given handlers.")

RULES = {
    "C06-N": "no integer on this property's data path is narrowed by an implicit conversion (parameter handed to a narrower parameter, stored in a narrower field, or a narrow field behind a wider accessor)",
    "C06-XC": "(thorough) decision tables of the configuration-independent functions of this property are identical in every build configuration",
    "C06-F1": "item writers: delimiter before the first data write on every path; every path that wrote data leaves output_count incremented",
    "C06-F1b": "the ',' write is guarded by output_count > 0; the block data call counts the item exactly when remaining reaches 0 on every non-error path",
    "C06-F8": "a unit is marked as a response exactly when it wrote items: the mark depends on output_count, not only on the handler's result and the '?'",
    "C06-F2": "no unit separator ';' is written on a path that afterwards reaches the handler invocation",
    "C06-F5": "every ';' write is guarded by !first_output; first_output is cleared only after the handler was invoked and only by processCommand, and on every path where a query's handler succeeded without error",
    "C06-F3": "first_output set before the unit loop; exactly one writeNewLine on every path from the loop to the return; line ending and flush on the same !first_output edge",
    "C06-F7": "the item counter that decides the comma is at least as wide as the element count of the array writers (it cannot wrap inside one unit)",
    "C06-F6": "the conditions that decide 'this unit responded' read only per-unit state that was re-established for this unit",
    "C06-F4": "separators are exactly \",\" and \";\" of length 1; the terminator is SCPI_LINE_ENDING with its own length",
}

SEPARATOR_WRITERS = {"writeDelimiter", "writeNewLine", "writeSemicolon", "processCommand"}
BLOCK_DATA = "SCPI_ResultArbitraryBlockData"
BLOCK_HEADER = "SCPI_ResultArbitraryBlockHeader"


def str_arg(call, i):
    a = K.arg(call, i)
    if a is None:
        return None
    s = a.strip_all_casts()
    return s.get("str") if s.k == "StringLiteral" else None


def is_count_inc(n):
    t = C.store_target(n)
    if t is None or not (t.get("path") or "").endswith("->output_count"):
        return False
    if n.k == "UnaryOperator" and n.get("op") == "++":
        return True
    if n.get("op") == "+=" and (C.const_of(n.child(1)) or 0) > 0:
        return True
    return False


class Effects:
    """(delimited, wrote, counted) outcomes of item-writing functions, bottom-up"""

    def __init__(self, prog, S):
        self.prog, self.S = prog, S
        self.memo = {}
        self.bad_writes = {}

    def outcomes(self, name, stack=()):
        if name in self.memo:
            return self.memo[name]
        fn = self.prog.fn(name)
        if fn is None or name in stack:
            return None
        if name == "writeDelimiter":
            self.memo[name] = {(1, 0, 0)}
            return self.memo[name]
        if name in SEPARATOR_WRITERS:
            self.memo[name] = {(0, 0, 0)}
            return self.memo[name]
        if not self.S.reaches(fn, {"writeData"}):
            self.memo[name] = None
            return None
        pg = self.S.pg(fn)
        bad = []

        def transfer(state, e):
            if e.kind != "elem":
                return state
            n = e.node
            if is_count_inc(n):
                return frozenset((d, w, 1) for d, w, i in state)
            if n.k == "CallExpr":
                c = n.get("callee")
                if c == "writeData":
                    for d, w, i in state:
                        if not d:
                            bad.append(n)
                    return frozenset((d, 1, i) for d, w, i in state)
                if c is None:
                    return state
                sub = self.outcomes(c, stack + (name,))
                if sub:
                    return frozenset((d | d2, w | w2, i | i2) for d, w, i in state for d2, w2, i2 in sub)
            return state

        st = pg.forward(transfer, frozenset({(0, 0, 0)}), lambda a, b: a | b)
        out = st.get(pg.exit, frozenset())
        self.memo[name] = set(out)
        # re-run to collect bad writes at the fixpoint only
        bad.clear()
        for p, s in st.items():
            for e in pg.out[p]:
                if e.kind == "elem" and e.node.k == "CallExpr" and e.node.get("callee") == "writeData":
                    if any(not d for d, w, i in s):
                        bad.append(e.node)
        self.bad_writes[name] = bad
        return self.memo[name]


def rule_f1(ck, prog, S):
    eff = Effects(prog, S)
    writers = sorted({f.name for f, c in prog.callers("writeData")} - SEPARATOR_WRITERS)
    if not writers:
        ck.anchor_lost("C06-F1", "no function calls writeData")
        return
    for name in writers:
        fn = prog.fn(name)
        ck.analysed(fn)
        out = eff.outcomes(name)
        st = K.site(fn, "item", 0)
        if name == BLOCK_DATA:
            continue
        bad = eff.bad_writes.get(name, [])
        problems = []
        for n, b in enumerate(K.ordinal_sites(list(dict.fromkeys(bad)))):
            problems.append(("data write `%s` can be reached without the item separator writer having run" % b.src, b))
        if name != BLOCK_HEADER:
            if any(w and not i for d, w, i in out):
                problems.append(("a path writes item data and returns without counting the item "
                                 "(output_count not incremented): the next item of the unit gets no ','", None))
        else:
            if any(i for d, w, i in out):
                problems.append(("the block header counts the item before its data is complete", None))
        if problems:
            for k, (what, node) in enumerate(problems):
                ck.violated("C06-F1", K.site(fn, "item", k), K.loc(fn, node) if node is not None else K.loc(fn), what)
        else:
            ck.holds("C06-F1", st, K.loc(fn), "outcomes (delimited, wrote, counted) = %s" % sorted(out))
    ck.floor("C06-F1", 7)
    # callers of the block data function must have produced the header (delimiter) first in the
    # library's own wrappers
    for f, c in prog.callers(BLOCK_DATA):
        if f.name == BLOCK_DATA:
            continue
        pg = S.pg(f)
        hdr = list(f.calls(BLOCK_HEADER))
        stt = K.site(f, "block-data-after-header", 0)
        reach = pg.reachable([pg.entry], blocked_edge=lambda e: e.kind == "elem" and e.node in hdr)
        if pg.before(c) in reach:
            ck.violated("C06-F1", stt, K.loc(f, c), "block data written on a path without the block header")
        else:
            ck.holds("C06-F1", stt, K.loc(f, c), "header (with delimiter) precedes the data on every path")


def rule_f1b(ck, prog, S):
    got = K.need(ck, prog, "C06-F1b", "writeDelimiter", BLOCK_DATA)
    if not got:
        return
    wd, bd = got
    # ',' guarded by output_count > 0
    calls = [c for c in wd.calls("writeData")]
    for n, c in enumerate(K.ordinal_sites(calls)):
        st = K.site(wd, "comma", n)
        facts = K.facts_at(S, wd, c) or []
        ocp = None
        for atom, pol in facts:
            for x in atom.walk():
                if (x.get("path") or "").endswith("->output_count"):
                    ocp = x["path"]
        ok = ocp is not None and (K.holds_rel(facts, ocp, ">", 0) or K.holds_rel(facts, ocp, "!=", 0))
        if ok:
            ck.holds("C06-F1b", st, K.loc(wd, c), "',' only when an item of this unit was already written")
        else:
            ck.violated("C06-F1b", st, K.loc(wd, c),
                        "the item separator is not guarded by output_count > 0: a ',' can precede the first item")
    if not calls:
        ck.violated("C06-F1b", K.site(wd, "comma", 0), K.loc(wd), "writeDelimiter writes nothing")
    # the other direction: when output_count > 0 the ',' must be written - whatever else the context holds
    st = K.site(wd, "comma-whenever-an-item-precedes", 0)
    try:
        wsums = P.summarize(wd)
    except P.TooManyPaths:
        wsums = []
    missing = None
    for ps in wsums:
        if any(c.get("callee") == "writeData" for c in ps.calls):
            continue
        oc = None
        for a, pol in ps.facts:
            for x in a.walk():
                if (x.get("path") or "").endswith("->output_count"):
                    oc = x["path"]
        none_yet = oc is not None and (K.holds_rel(ps.facts, oc, "<=", 0) or K.holds_rel(ps.facts, oc, "==", 0))
        if not none_yet:
            missing = missing or ps
    if missing is not None:
        ck.violated("C06-F1b", st, K.loc(wd, missing.ret_node) if missing.ret_node is not None else K.loc(wd),
                    "writeDelimiter can return without the ',' although an item of this unit was already written (%s): two items of "
                    "one response run together" % missing.describe()[-3:])
    elif wsums:
        ck.holds("C06-F1b", st, K.loc(wd), "every path without the ',' has output_count == 0")
    # block data: on every non-error path, test remaining == 0 and count on its true edge
    pg = S.pg(bd)
    incs = [n for n in bd.nodes.values() if is_count_inc(n)]
    pushes = [c for c in bd.calls() if (c.get("callee") or "").startswith("SCPI_ErrorPush")]
    st = K.site(bd, "count-when-complete", 0)
    if not incs:
        ck.violated("C06-F1b", st, K.loc(bd), "block data never counts the item")
        return
    inc = incs[0]
    facts = K.facts_at(S, bd, inc) or []
    guarded = False
    test_block = None
    alias = K.field_aliases(bd, "->arbitrary_remaining")

    def remp(x):
        pth = x.get("path") or ""
        return pth.endswith("->arbitrary_remaining") or pth in alias
    for atom, pol in facts:
        if isinstance(pol, tuple):
            continue
        if atom.k == "BinaryOperator" and atom.get("op") == "==" and pol and C.const_of(atom.child(1)) == 0 and \
                remp(atom.child(0).strip_all_casts()):
            guarded = True
            test_block = atom
        if remp(atom) and pol is False:
            guarded = True
            test_block = atom
    if not guarded:
        ck.violated("C06-F1b", st, K.loc(bd, inc),
                    "the block is counted as an item without testing that the announced length is used up")
        return
    # every path entry -> exit that avoids an error push evaluates the test
    tb, ti = bd.where[test_block.id]
    reach = pg.reachable([pg.entry], blocked_edge=lambda e: e.kind == "elem" and (e.node in pushes or e.node is test_block))
    if pg.exit in reach:
        path = pg.find_path([pg.entry], lambda p: p == pg.exit,
                            blocked_edge=lambda e: e.kind == "elem" and (e.node in pushes or e.node is test_block))
        ck.violated("C06-F1b", st, K.loc(bd, test_block),
                    "a path of the block data call returns without error and without evaluating `remaining == 0`: a "
                    "block completed on that path is never counted, the next item gets no ','",
                    {"path": pg.describe_path(path or [])})
    else:
        ck.holds("C06-F1b", st, K.loc(bd, inc), "every non-error path evaluates remaining == 0 and counts on its true edge")


def rule_f2_f5(ck, prog, S):
    got = K.need(ck, prog, "C06-F2", "processCommand", "SCPI_Parse")
    if not got:
        return
    proc, parse = got
    pg = S.pg(proc)
    cbs = [c for c in proc.calls() if c.get("callee") is None and "callback" in (c.get("callee_path") or "")]
    if not cbs:
        ck.anchor_lost("C06-F2", "call-back invocation in processCommand")
        return
    semis = [c for f in (proc, parse) for c in f.calls("writeData") if str_arg(c, 1) == ";"]
    if not semis:
        ck.anchor_lost("C06-F2", "unit separator write (writeData(ctx, \";\", 1)) in processCommand/SCPI_Parse")
        return
    for n, c in enumerate(K.ordinal_sites(semis)):
        f = c.fn
        g = S.pg(f)
        st = K.site(f, "unit-separator-before-handler", n)
        if f is proc:
            reach = g.reachable([g.after(c)])
            hits = [cb for cb in cbs if g.before(cb) in reach]
            if hits:
                path = g.find_path([g.after(c)], lambda p: p == g.before(hits[0]))
                ck.violated("C06-F2", st, K.loc(f, c),
                            "the unit separator ';' is written before the handler runs; a handler that answers "
                            "nothing or fails leaves a separator without a response unit next to it",
                            {"path": g.describe_path(path or [])})
            else:
                ck.holds("C06-F2", st, K.loc(f, c), "separator written after the handler")
        # F5: guarded by !first_output
        st5 = K.site(f, "unit-separator-guard", n)
        facts = K.facts_at(S, f, c) or []
        if any((a.get("path") or "").endswith("->first_output") and pol is False for a, pol in facts):
            ck.holds("C06-F5", st5, K.loc(f, c), "';' only when an earlier unit of this message responded")
        else:
            ck.violated("C06-F5", st5, K.loc(f, c),
                        "';' is not guarded by !first_output: the first response of a message can start with ';'",
                        {"facts": [(a.src, str(p)) for a, p in facts]})
    # who writes first_output; FALSE only after the call-back
    n = 0
    for f in sorted(prog.functions.values(), key=lambda f: (f.relfile, f.line)):
        for node, t in C.stores(f):
            if not (t.get("path") or "").endswith("->first_output"):
                continue
            st = K.site(f, "first_output-store", n)
            n += 1
            v = C.const_of(node.child(1)) if node.get("op") == "=" else None
            if f.name == "SCPI_Parse" and v == 1:
                ck.holds("C06-F5", st, K.loc(f, node), "per-message initialisation")
            elif f.name == "processCommand" and v == 0:
                g = S.pg(f)
                reach = g.reachable([g.entry], blocked_edge=lambda e: e.kind == "elem" and e.node in cbs)
                if g.before(node) in reach:
                    ck.violated("C06-F5", st, K.loc(f, node),
                                "first_output is cleared on a path that did not invoke the handler")
                else:
                    ck.holds("C06-F5", st, K.loc(f, node), "cleared only after the handler was invoked")
            else:
                ck.violated("C06-F5", st, K.loc(f, node),
                            "unexpected writer of first_output (`%s` in %s)" % (node.src, f.name))
    # converse: a unit whose handler succeeded without error and that is a query counts as a response
    from sa import paths as P
    sums = P.summarize(proc)
    st = K.site(proc, "responding-unit-marks-message", 0)
    bad = None
    nresp = 0
    for ps in sums:
        ci = [i for i, e in enumerate(ps.events) if e[0] == "call" and e[1] in cbs]
        if not ci:
            continue
        after = ps.events[ci[0] + 1:]
        polq = {e[2] for e in ps.events if e[0] == "branch" and e[1].get("path") == "is_query"}
        if len(polq) > 1:
            continue                     # is_query is never reassigned: mixed decisions are infeasible
        br = [(e[1], e[2]) for e in after if e[0] == "branch"]
        ok = [pol for a, pol in br if a.k == "BinaryOperator" and a.get("op") in ("!=", "==") and a.child(0).strip_all_casts() is cbs[0]]
        cb_ok = None
        for a, pol in br:
            if a.k == "BinaryOperator" and a.get("op") in ("!=", "==") and any(x is cbs[0] for x in (a.child(0).strip_all_casts(), a.child(1).strip_all_casts())):
                cb_ok = (pol is False) if a["op"] == "!=" else (pol is True)
                break
        if cb_ok is not True:
            continue
        err = [pol for a, pol in br if (a.get("path") or "").endswith("->cmd_error")]
        if not err or err[0] is not False:
            continue
        if polq != {True}:
            continue
        nresp += 1
        fo = [pol for a, pol in br if (a.get("path") or "").endswith("->first_output")]
        cleared = any(e[0] == "store" and (C.store_target(e[1]).get("path") or "").endswith("->first_output")
                      and C.const_of(e[1].child(1)) == 0 for e in after)
        if not cleared and not (fo and fo[0] is False):
            extra = [(a.src, pol) for a, pol in br if not ((a.get("path") or "").endswith(("->cmd_error", "->first_output"))
                                                         or a.get("path") == "is_query" or a.k == "BinaryOperator")]
            bad = bad or (ps, extra)
    if nresp == 0:
        ck.anchor_lost("C06-F5", "no path of processCommand with handler OK, no error and is_query")
    elif bad:
        ck.violated("C06-F5", st, K.loc(proc, bad[0].ret_node),
                    "a query whose handler succeeded without error can leave first_output set: its response is then not "
                    "counted (no terminator after it, no ';' before the next response)",
                    {"path": bad[0].describe(), "extra_conditions": bad[1]})
    else:
        ck.holds("C06-F5", st, K.loc(proc), "%d paths (handler OK, no error, query): each ends with first_output == FALSE" % nresp)
    ck.analysed(proc, parse)


def fresh_unit_state(ck, prog, S, rule, select, message):
    """every transient per-unit field tested by a branch that guards one of the selected nodes
    of processCommand must have been stored for this unit (shared by C06-F6 and C05-E7)"""
    from sa import ctx as X
    from .c09 import top_field
    spec = K.load_spec("context_fields.json")
    got = K.need(ck, prog, rule, "processCommand", "SCPI_Parse", "findCommandHeader")
    if not got:
        return
    proc, parse, find = got
    summ = {"findCommandHeader": X.return_stores(find)}
    pgp, stp = X.must_stored(parse, reset_calls=("scpiParser_detectProgramMessageUnit",), callee_summaries=summ, prog=prog)
    pcs = list(parse.calls("processCommand"))
    if not pcs:
        ck.anchor_lost(rule, "processCommand call")
        return
    s1 = stp.get(pgp.before(pcs[0]), frozenset())
    pgc, stc = X.must_stored(proc, prog=prog)
    al, resolve = X.aliases(proc)
    seen = set()
    k = 0
    for node in K.ordinal_sites(select(proc)):
        facts = K.facts_at(S, proc, node) or []
        for atom, pol in facts:
            s2 = stc.get(pgc.before(atom), frozenset()) if pgc.before(atom) else frozenset()
            for sub in atom.walk():
                p = sub.get("path")
                if sub.k != "MemberExpr" or not p:
                    continue
                par = proc.parent_of(sub)
                if par is not None and par.k == "MemberExpr":
                    continue
                full = X.norm(resolve(p))
                if spec["fields"].get(top_field(full)) != "transient-unit":
                    continue
                if (sub.id, full) in seen:
                    continue
                seen.add((sub.id, full))
                st = K.site(proc, "decision-reads(%s)" % full, k)
                k += 1
                if X.covers(full, set(s1) | set(s2)):
                    ck.holds(rule, st, K.loc(proc, atom), "`%s` re-established for this unit before it is tested" % full)
                else:
                    ck.violated(rule, st, K.loc(proc, atom), message % full)
    ck.floor(rule, 1)


def rule_f6(ck, prog, S):
    fresh_unit_state(ck, prog, S, "C06-F6",
                     lambda proc: [n for n, t in C.stores(proc) if (t.get("path") or "").endswith("->first_output")] +
                     [c for c in proc.calls("writeData") if str_arg(c, 1) == ";"],
                     "whether this unit counts as having responded is decided from `%s`, which is not "
                     "re-established for this unit on every path: an earlier unit's value suppresses the "
                     "';' between responses and the final terminator")


def rule_f3_f4(ck, prog, S):
    got = K.need(ck, prog, "C06-F3", "SCPI_Parse", "writeNewLine", "writeDelimiter")
    if not got:
        return
    parse, wnl, wd = got
    pg = S.pg(parse)
    nls = list(parse.calls("writeNewLine"))
    st = K.site(parse, "terminator", 0)
    det = K.ordinal_sites(list(parse.calls("scpiParser_detectProgramMessageUnit")))
    if not det:
        ck.anchor_lost("C06-F3", "unit detection call in SCPI_Parse")
        return
    loops = C.loops(parse)
    in_loop = [c for c in nls for h, body in loops if parse.where[c.id][0].id in body]
    if len(nls) != 1 or in_loop:
        ck.violated("C06-F3", st, K.loc(parse), "SCPI_Parse must call writeNewLine exactly once, outside the unit loop "
                    "(found %d call(s), %d inside the loop)" % (len(nls), len(in_loop)))
    else:
        reach = pg.reachable([pg.before(det[0])], blocked_edge=lambda e: e.kind == "elem" and e.node in nls)
        if pg.exit in reach:
            ck.violated("C06-F3", st, K.loc(parse, nls[0]), "a path from the unit loop to the return skips writeNewLine")
        else:
            ck.holds("C06-F3", st, K.loc(parse, nls[0]), "exactly one writeNewLine on every path after the unit loop")
    # writeNewLine body
    g = S.pg(wnl)
    wr = list(wnl.calls("writeData"))
    fl = list(wnl.calls("flushData"))
    if not fl:
        # the transport wrapper written out in place: the call of the flush call-back itself (its guard only asks whether
        # the call-back exists; edges taken because it does not are not paths that "skip the flush")
        fl = [c for c in wnl.calls() if c.get("callee") is None and "flush" in (c.get("callee_path") or c.src)]

    def no_callback_edge(e):
        if e.kind != "edge" or not e.label or e.label[0] != "false" or e.label[1] is None:
            return False
        leaves = [x for x in e.label[1].walk() if x.k in ("DeclRefExpr", "MemberExpr") and
                  not any(y is not x and y.k in ("DeclRefExpr", "MemberExpr") and x in y.walk() for y in e.label[1].walk())]
        c_ = e.label[1].strip_all_casts()
        return c_.get("tk") == "ptr" and ("flush" in c_.src or "interface" in c_.src or c_.src.strip() == "context")
    st = K.site(wnl, "ending+flush", 0)
    le = prog.macros.get("SCPI_LINE_ENDING")
    if len(wr) != 1 or len(fl) != 1:
        ck.violated("C06-F3", st, K.loc(wnl), "writeNewLine must contain one line-ending write and one flush (found %d, %d)"
                    % (len(wr), len(fl)))
    else:
        fw = K.facts_at(S, wnl, wr[0]) or []
        ff = K.facts_at(S, wnl, fl[0]) or []
        gw = any((a.get("path") or "").endswith("->first_output") and pol is False for a, pol in fw)
        # the flush sits on the same edge iff it can only be reached through the write
        r0 = g.reachable([g.entry], blocked_edge=lambda e: e.kind == "elem" and e.node in wr)
        gf = g.before(fl[0]) not in r0
        extra = [a.src for a, pol in fw if not (a.get("path") or "").endswith("->first_output")
                 and not (a.k == "UnaryOperator")]
        reach = g.reachable([g.after(wr[0])], blocked_edge=lambda e: (e.kind == "elem" and e.node in fl) or no_callback_edge(e))
        # on the responded edge both must happen: entry -> exit avoiding them only via first_output true
        r2 = g.reachable([g.entry], blocked_edge=lambda e: (e.kind == "elem" and e.node in wr) or
                         (e.kind == "edge" and e.label[0] == "false" and e.label[1] is not None and
                          "first_output" in e.label[1].src and e.label[1].k == "UnaryOperator") or
                         (e.kind == "edge" and e.label[0] == "true" and e.label[1] is not None and
                          (e.label[1].get("path") or "").endswith("->first_output")))
        if not gw or not gf:
            ck.violated("C06-F3", st, K.loc(wnl, wr[0]), "line ending / flush not guarded by !first_output (write %s, flush %s)" % (gw, gf))
        elif extra:
            ck.violated("C06-F3", st, K.loc(wnl, wr[0]), "terminator depends on extra conditions %s" % extra)
        elif g.exit in reach:
            ck.violated("C06-F3", st, K.loc(wnl, wr[0]), "a path writes the line ending without flushing")
        elif g.exit in r2:
            ck.violated("C06-F3", st, K.loc(wnl, wr[0]), "a responding message can end without the line ending")
        else:
            ck.holds("C06-F3", st, K.loc(wnl, wr[0]), "line ending and flush on the same !first_output edge")
        # F4 constants
        st4 = K.site(wnl, "line-ending-constant", 0)
        s = str_arg(wr[0], 1)
        ln = K.arg(wr[0], 2)
        lnv = C.const_of(ln)
        if lnv is None:
            inner = [x for x in ln.walk() if x.k == "CallExpr" and x.get("callee") in ("strlen", "__builtin_strlen")]
            if inner and str_arg(inner[0], 0) == s and s is not None:
                lnv = len(s)
        if s in ("\r", "\n", "\r\n") and lnv == len(s):
            ck.holds("C06-F4", st4, K.loc(wnl, wr[0]), "terminator %r, length %d" % (s, lnv))
        else:
            ck.violated("C06-F4", st4, K.loc(wnl, wr[0]), "terminator write is %r with length %s" % (s, lnv))
    for f, want in ((wd, ","), (prog.fn("processCommand"), ";"), (prog.fn("writeSemicolon"), ";")):
        if f is None:
            continue
        for n, c in enumerate(K.ordinal_sites(list(f.calls("writeData")))):
            st4 = K.site(f, "separator-constant", n)
            s, ln = str_arg(c, 1), C.const_of(K.arg(c, 2))
            if s == want and ln == 1:
                ck.holds("C06-F4", st4, K.loc(f, c), "%r length 1" % s)
            else:
                ck.violated("C06-F4", st4, K.loc(f, c), "separator write is %r with length %s, expected %r/1" % (s, ln, want))
    ck.analysed(parse, wnl, wd)


def rule_transport(ck, prog, S, which=(("flushData", "flush"), ("writeData", "write")), rule="C06-F3", why=None):
    """the transport wrappers (writeData, flushData) decide only on the presence of the callback: whether something is
    written / flushed is decided by their callers (F3), not by per-unit state inside the wrapper"""
    for name, cb in which:
        f = prog.fn(name)
        if f is None:
            continue
        ck.analysed(f)
        calls = [c for c in f.calls() if c.get("callee") is None and cb in (c.get("callee_path") or c.src)]
        st = K.site(f, "callback-guard", 0)
        if not calls:
            ck.anchor_lost(rule, "call of interface->%s in %s" % (cb, name))
            continue
        extra = []
        for atom, pol in K.facts_at(S, f, calls[0]) or []:
            if isinstance(pol, tuple):
                extra.append(atom.src)
                continue
            a = atom.strip_all_casts()
            if a.k == "BinaryOperator" and a.get("op") in ("&&", "||"):
                continue
            if a.get("tk") == "ptr" or (a.k == "BinaryOperator" and a.get("op") in ("!=", "==") and
                                        (a.child(0).strip_all_casts().get("tk") == "ptr" or a.child(1).strip_all_casts().get("tk") == "ptr")):
                continue
            # a length test of the data handed in is part of "is there something to write"
            names = {x.get("path") for x in a.walk() if x.k == "DeclRefExpr"}
            if names and names <= {p_["name"] for p_ in f.params if p_["type"].get("tk") == "int"}:
                continue
            extra.append(atom.src)
        # and the other way round: a path that does not reach the call-back found a pointer missing
        if not extra:
            try:
                for ps in P.summarize(f):
                    if any(c is calls[0] for c in ps.calls):
                        continue
                    missing = False
                    for atom, pol in ps.facts:
                        if isinstance(pol, tuple):
                            continue
                        a = atom.strip_all_casts()
                        if a.get("tk") == "ptr" and pol is False:
                            missing = True
                        if a.k == "BinaryOperator" and a.get("op") in ("!=", "==") and \
                                (a.child(0).strip_all_casts().get("tk") == "ptr" or a.child(1).strip_all_casts().get("tk") == "ptr") and \
                                (pol is (a["op"] == "==")):
                            missing = True
                    intp = {p_["name"] for p_ in f.params if p_["type"].get("tk") == "int"}
                    for atom, pol in ps.facts:
                        if not isinstance(pol, tuple):
                            names = {x.get("path") for x in atom.walk() if x.k == "DeclRefExpr"}
                            if names and names <= intp:
                                missing = True      # nothing to write: a test of the length handed in
                    if not missing:
                        extra.append("a path that skips it although every pointer is there (%s)" % ps.describe()[-3:])
                        break
            except P.TooManyPaths:
                pass
        if extra:
            ck.violated(rule, st, K.loc(f, calls[0]),
                        "%s calls the transport's %s only under %s: %s" % (name, cb, extra, why or
                        "the decision depends on state of the current unit, so a message whose last unit produced nothing is "
                        "terminated but not flushed (`*ESR?;*CLS`)"))
        else:
            ck.holds(rule, st, K.loc(f, calls[0]), "%s is called whenever the callback exists" % cb)


def rule_f7(ck, prog):
    """the comma decision reads the per-unit item counter: it must be able to count every item one unit can produce"""
    rec = prog.records.get("_scpi_t")
    wd = prog.fn("writeDelimiter")
    arr = [f for f in prog.functions.values() if f.name.startswith("SCPI_ResultArray") and len(f.params) >= 3]
    if not rec or wd is None or not arr:
        ck.anchor_lost("C06-F7", "struct _scpi_t / writeDelimiter / SCPI_ResultArray*")
        return
    read = {n.get("member") for n in wd.nodes.values() if n.k == "MemberExpr" and n.get("record") == "_scpi_t"}
    flds = [q for q in rec["fields"] if q["name"] in read and q["type"].get("tk") == "int"]
    st = K.site(wd, "item-counter-width", 0)
    if not flds:
        ck.anchor_lost("C06-F7", "integer field of scpi_t read by writeDelimiter")
        return
    need = max((p_["type"].get("bits") or 0) for f in arr for p_ in f.params if p_["name"] == "count")
    fld = flds[0]
    have = fld["type"].get("bits") or 0
    ck.analysed(wd)
    if have < need:
        ck.violated("C06-F7", st, K.loc(wd),
                    "the item counter `%s` that decides the comma has %d bits, but one unit can produce as many items as an array "
                    "count of %d bits says: after 2^%d items of one unit the counter is negative/zero again and items are written "
                    "without a separator" % (fld["name"], have, need, have - 1))
    else:
        ck.holds("C06-F7", st, K.loc(wd), "`%s` has %d bits, array counts have %d" % (fld["name"], have, need))


def rule_f8(ck, prog, S):
    """Whether a unit counts as a response (terminator, flush, separator in front of the next unit) must agree with whether
    it put bytes into the output.  The item writers count what they write in `output_count`; a decision taken from the
    handler's return value and the '?' of the header instead disagrees with the bytes whenever a handler emits items and
    then fails, or a command without '?' emits items."""
    f = prog.fn("processCommand")
    if f is None:
        return
    clears = [n for n, t in C.stores(f) if (t.get("path") or "").endswith("->first_output") and n.get("op") == "=" and C.const_of(n.child(1)) == 0]
    st = K.site(f, "responded-iff-items-written", 0)
    if not clears:
        ck.anchor_lost("C06-F8", "the store that marks the unit as a response in processCommand")
        return
    bad = None
    for n in clears:
        facts = K.facts_at(S, f, n) or []
        if not any(not isinstance(pol, tuple) and any((x.get("path") or "").endswith("->output_count") for x in a.walk()) for a, pol in facts):
            bad = (n, [a.src for a, pol in facts if not isinstance(pol, tuple)][:5])
    if bad:
        ck.violated("C06-F8", st, K.loc(f, bad[0]),
                    "the unit is marked as a response under %s, none of which looks at the number of items written: a query whose "
                    "handler emits an item and then fails leaves that item in the output without terminator or flush, and a command "
                    "without '?' that emits items writes them raw in front of / behind the neighbouring response" % bad[1],
                    {"witness": "handlers: PART? emits 5 then returns SCPI_RES_ERR, EMIT (no '?') emits 7. \"PART?\\n\" writes \"5\" (no terminator, "
                                "no flush); \"PART?;ONE?\\n\" writes \"51\\r\\n\"; \"EMIT;ONE?\\n\" writes \"71\\r\\n\""})
    else:
        ck.holds("C06-F8", st, K.loc(f, clears[0]), "the response mark depends on the items written")


def run(ck, fb, tier):
    for cfg in fb.configs:
        ck.config = cfg
        prog = fb[cfg]
        S = K.summaries(prog)
        rule_f1(ck, prog, S)
        rule_f1b(ck, prog, S)
        rule_f2_f5(ck, prog, S)
        rule_f6(ck, prog, S)
        rule_f8(ck, prog, S)
        rule_f3_f4(ck, prog, S)
        rule_f7(ck, prog)
        rule_transport(ck, prog, S)
        K.narrowing_rule(ck, prog, "C06-N", lambda f_: f_.relfile.endswith("parser.c") and (f_.name.startswith(("SCPI_Result", "write", "produceResult")) or f_.name in ("processCommand",)))
    ck.assume("handlers emit results only through the SCPI_Result* API")
    if tier == "thorough":
        K.cross_config(ck, fb, "C06-XC", ['processCommand', 'writeDelimiter', 'writeNewLine', 'SCPI_ResultArbitraryBlockData', 'SCPI_ResultText'])


TECHNIQUE = ("static analysis: may-state dataflow (delimited, wrote, counted) with bottom-up callee effect summaries, "
             "branch-fact guards, reachability (never-before / must-pass) on clang CFGs, constant audit")
LEVEL_TEXT = ("Clause-level static decision of the framing discipline on every CFG path of every item writer and of "
              "the unit/terminator logic; holds for all messages and handlers because it is per path, not per input. "
              "Does not decide byte-exact output. One rule (lazy unit separator) is violated by the code as it is and "
              "is recorded as a known finding.")
LEVEL_NOTE = ("Trusted: clang front end/CFG, extractor. Assumes handlers write only through SCPI_Result*. The block "
              "header/data pair is a table-listed exception to the delimiter/count rule with its own obligation.")
DESIGN_REF = "DESIGN.md section 5, C06"
