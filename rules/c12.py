"""C12 — events are classified, latched and announced as IEEE 488.2 / SCPI prescribe."""
import itertools

from sa import cfg as C
from sa import bits as B
from . import common as K
from .regset import RegSetModel, class_names

CONFIGS_QUICK = ["A"]
CONFIGS_THOROUGH = ["A", "B", "C", "D", "E"]

EXPLANATION = (
    "Static, clause-level decision of C12 on /repo's working tree. Decided: (V1) the map error "
    "code -> ESR class bit, computed for all 65536 int16 codes from the evaluated initialiser of "
    "the range table AND the orientation of the comparisons that guard the set-bits call, equals "
    "the SCPI-99 21.8 partition; the call is a set-bits (monotone) on ESR; every queue insertion "
    "passes through the classification (who-may-call + must-pass). (V2) in the condition arm of "
    "SCPI_RegSet the value stored into the event register is, by truth table over all bit "
    "combinations, old_event | rising bits (exactly, when no transition filter is configured; "
    "monotone and filter-bounded otherwise). (V3) the only library call sites that can lower an "
    "event register are the operations defined to clear it, each reaches its clear on every path "
    "and the queries report before clearing. (V4) the service-request call lies on the MSS-true "
    "edge, after the store that sets bit 6, passes the status byte read after that store, and for "
    "every register class routed to that arm is reached whenever a bit of the written register "
    "rose. NOT decided: behaviour of user call-backs, histories as such (the rules are per site "
    "and hold for every history because no rule depends on a runtime value).")

RULES = {
    "C12-V1": "error code -> ESR bit map (range table x comparison orientation, all 65536 codes) equals the SCPI-99 21.8 partition",
    "C12-V1c": "an error code the library queues on its own (-350 on overflow) also sets the ESR bit of its class, on every path on which it was queued",
    "C12-V1b": "every insertion into the error queue passes through the classification loop; the class bit is applied with a set-bits (monotone) call on ESR",
    "C12-V2": "condition arm: value stored to the event register == old event | latched transitions (truth table)",
    "C12-V3": "only the operations defined to clear an event register can lower it; each does so on every path, queries report before clearing",
    "C12-V4": "SRQ call-back: on the MSS-true edge, after bit 6 is stored, with the status byte read after that store, reached whenever a bit of the written register rose",
}


def _interpret_cmp(atom, pol, table, idxvar):
    """comparison between the code parameter and a field of table[idx] -> (field, op) with op
    normalised to `code OP field`; None if the atom is something else"""
    n = atom
    if n.k != "BinaryOperator" or n.get("op") not in ("<", "<=", ">", ">=", "==", "!="):
        return None
    a, b = n.child(0).strip_all_casts(), n.child(1).strip_all_casts()
    op = n["op"]
    neg = {"<": ">=", "<=": ">", ">": "<=", ">=": "<", "==": "!=", "!=": "=="}
    flip = {"<": ">", "<=": ">=", ">": "<", ">=": "<=", "==": "==", "!=": "!="}
    if not pol:
        op = neg[op]

    def field(x):
        p = x.get("path") or ""
        pre = "%s[%s]." % (table, idxvar)
        return p[len(pre):] if p.startswith(pre) else None

    def is_code(x):
        return x.k == "DeclRefExpr" and x["decl"]["kind"] == "param"

    if is_code(a) and field(b):
        return (a["decl"]["name"], field(b), op)
    if is_code(b) and field(a):
        return (b["decl"]["name"], field(a), flip[op])
    return None


def _cmp(op, x, y):
    return {"<": x < y, "<=": x <= y, ">": x > y, ">=": x >= y, "==": x == y, "!=": x != y}[op]


def rule_v1c(ck, prog, S):
    """codes queued by the library itself: constant stored into an error value that is then added to the queue"""
    spec = K.load_spec("esr_classes.json")
    bits = spec["esr_bits"]
    esr = prog.enumconst.get("SCPI_REG_ESR")
    add = prog.fn("SCPI_ErrorAddInternal")
    push = prog.fn("SCPI_ErrorPushEx")
    if add is None or push is None or esr is None:
        ck.anchor_lost("C12-V1c", "SCPI_ErrorAddInternal / SCPI_ErrorPushEx")
        return
    own = set()
    for n, t in C.stores(add):
        if (t.get("path") or "").endswith("error_code") and n.get("op") == "=":
            c = C.const_of(n.child(1))
            if c is not None and c != 0:
                own.add(c)
    if not own:
        ck.anchor_lost("C12-V1c", "no constant error code is queued by SCPI_ErrorAddInternal (expected the overflow marker)")
        return
    pg = S.pg(push)
    calls = list(push.calls("SCPI_ErrorAddInternal"))
    if len(calls) != 1:
        ck.anchor_lost("C12-V1c", "call of SCPI_ErrorAddInternal in SCPI_ErrorPushEx")
        return
    # edges on which the insertion is known to have failed (the own code was queued instead)
    holder = None
    for n in push.nodes.values():
        if n.k == "DeclStmt":
            for d in n.get("decls", []):
                if "init" in d and any(x is calls[0] for x in push.nodes[d["init"]].walk()):
                    e_ = push.nodes[d["init"]].strip_all_casts()
                    neg = e_.k == "UnaryOperator" and e_.get("op") == "!"
                    holder = (d["name"], neg)
    for n, t in C.stores(push):
        if n.get("op") == "=" and any(x is calls[0] for x in n.child(1).walk()):
            e_ = n.child(1).strip_all_casts()
            holder = (t.get("path"), e_.k == "UnaryOperator" and e_.get("op") == "!")
    fail_edges = []
    for p_, es in pg.out.items():
        for e in es:
            if e.kind == "edge" and e.label and len(e.label) > 1 and e.label[0] in ("true", "false") and e.label[1] is not None:
                for a, pol in C.cond_facts(e.label[1], e.label[0] == "true"):
                    if isinstance(pol, tuple):
                        continue
                    s_ = a.strip_all_casts()
                    if s_ is calls[0] and pol is False:
                        fail_edges.append(e)
                    elif holder and s_.get("path") == holder[0] and pol is (True if holder[1] else False):
                        fail_edges.append(e)
    for code in sorted(own):
        want = 0
        for c in spec["classes"]:
            if c["lo"] <= code <= c["hi"]:
                want |= bits[c["bit"]]
        st = K.site(push, "own-code(%d)" % code, 0)
        setters = [c for c in push.calls("SCPI_RegSetBits")
                   if C.const_of(K.arg(c, 1)) == esr and C.const_of(K.arg(c, 2)) is not None and (C.const_of(K.arg(c, 2)) & want) == want]
        if not fail_edges:
            ck.undecided("C12-V1c", st, K.loc(push, calls[0]), "cannot locate the path on which the insertion failed")
            continue
        if want == 0:
            ck.holds("C12-V1c", st, K.loc(push), "code %d has no ESR class" % code, nontrivial=False)
            continue
        reach = pg.reachable([e.dst for e in fail_edges], blocked_edge=lambda e: e.kind == "elem" and e.node in setters)
        if pg.exit in reach:
            ck.violated("C12-V1c", st, K.loc(push, calls[0]),
                        "when the queue is full the library queues %d in place of the newest entry, but no path sets the ESR bit of that "
                        "code's class (0x%02x): after three pushes of -113 on a queue of two, -350 is in the queue and ESR is 0x20" % (code, want))
        else:
            ck.holds("C12-V1c", st, K.loc(push, setters[0]), "ESR |= 0x%02x on every path on which %d was queued" % (want, code))
    ck.analysed(add, push)


def rule_v1(ck, prog, S):
    got = K.need(ck, prog, "C12-V1", "SCPI_ErrorPushEx")
    if not got:
        return
    fn = got[0]
    spec = K.load_spec("esr_classes.json")
    esr = prog.enumconst.get("SCPI_REG_ESR")
    if esr is None:
        ck.anchor_lost("C12-V1", "enum constant SCPI_REG_ESR")
        return
    sites = []
    for call in fn.calls():
        if call.get("callee") in ("SCPI_RegSetBits", "SCPI_RegSet", "SCPI_RegClearBits"):
            a = C.call_args(call)
            if len(a) == 3 and C.const_of(a[1]) == esr:
                sites.append(call)
    if not sites:
        ck.anchor_lost("C12-V1", "no call that writes SCPI_REG_ESR in SCPI_ErrorPushEx")
        return
    code_bits = {}
    code_param = None
    ok = True
    for n, call in enumerate(K.ordinal_sites(sites)):
        st = K.site(fn, "ESR-class-bit", n)
        if call.get("callee") != "SCPI_RegSetBits":
            ck.violated("C12-V1b", st, K.loc(fn, call),
                        "the class bit is applied with %s, which can lower other latched ESR bits; "
                        "a queued error must only SET the bit of its class" % call["callee"],
                        {"call": call.src})
            ok = False
            continue
        ck.holds("C12-V1b", st, K.loc(fn, call), "class bit applied with SCPI_RegSetBits")
        bitarg = C.call_args(call)[2].strip_all_casts()
        p = bitarg.get("path") or ""
        if C.const_of(bitarg) is not None and "[" not in p:
            # a constant class bit is legitimate only for a code the library queues itself (the overflow marker): the call must
            # sit on the insertion-failed path and carry the bit of that code's class (V1c demands that it is there)
            cb = C.const_of(bitarg)
            own_bits = set()
            addf = prog.fn("SCPI_ErrorAddInternal")
            if addf is not None:
                for n2, t2 in C.stores(addf):
                    if (t2.get("path") or "").endswith("error_code") and n2.get("op") == "=" and C.const_of(n2.child(1)):
                        for c_ in spec["classes"]:
                            if c_["lo"] <= C.const_of(n2.child(1)) <= c_["hi"]:
                                own_bits.add(spec["esr_bits"][c_["bit"]])
            facts_ = K.facts_at(S, fn, call) or []
            on_fail = any(not isinstance(pol, tuple) and ((a.strip_all_casts().k == "DeclRefExpr" and "overflow" in (a.get("path") or "") and pol is True) or
                                                          (a.strip_all_casts().k == "CallExpr" and a.get("callee") == "SCPI_ErrorAddInternal" and pol is False))
                          for a, pol in facts_)
            if cb in own_bits and on_fail:
                ck.holds("C12-V1", st, K.loc(fn, call), "constant class bit 0x%02x on the insertion-failed path (the library's own -350, see C12-V1c)" % cb)
            else:
                ck.violated("C12-V1", st, K.loc(fn, call),
                            "ESR bit 0x%02x is set regardless of the code's class (not on the overflow path / not the class of a code the "
                            "library queues itself): errors of other classes raise a foreign standard-event bit" % cb)
                ok = False
            continue
        if "[" not in p or "]." not in p:
            ck.undecided("C12-V1", st, K.loc(fn, call), "bit argument `%s` is not table[idx].field" % bitarg.src)
            ok = False
            continue
        table = p[:p.index("[")]
        idxvar = p[p.index("[") + 1:p.index("]")]
        bitfield = p[p.index("].") + 2:]
        g = prog.global_var(table)
        if g is None or not isinstance(g.get("init"), list):
            ck.anchor_lost("C12-V1", "table %s has no evaluated initialiser" % table)
            return
        rows = g["init"]
        facts = K.facts_at(S, fn, call)
        if facts is None:
            ck.anchor_lost("C12-V1", "call site not reachable")
            return
        constraints = []
        bound = None
        unknown = []
        for atom, pol in facts:
            if isinstance(pol, tuple):
                unknown.append(atom.src)
                continue
            c = _interpret_cmp(atom, pol, table, idxvar)
            if c:
                constraints.append(c)
                code_param = c[0]
                continue
            # loop bound on the index
            if atom.k == "BinaryOperator" and atom.get("op") in ("<", "<=", "!="):
                l, r = atom.child(0).strip_all_casts(), atom.child(1)
                if l.get("path") == idxvar and C.const_of(r) is not None and pol:
                    bound = C.const_of(r) + (1 if atom["op"] == "<=" else 0)
                    continue
                # pointer walk over the table: reg != table + N / reg < table + N
                rs = r.strip_all_casts()
                while rs.k == "ParenExpr":
                    rs = rs.child(0).strip_all_casts()
                if l.get("path") in (idxvar, "&%s[%s]" % (table, idxvar)) and pol and rs.k == "BinaryOperator" and rs.get("op") == "+" and \
                        rs.child(0).strip_all_casts().get("path") == table and C.const_of(rs.child(1)) is not None and atom["op"] in ("<", "!="):
                    bound = C.const_of(rs.child(1))
                    continue
            # redundant logical wrappers (the && node itself) carry no extra information
            if atom.k == "BinaryOperator" and atom.get("op") in ("&&", "||"):
                continue
            unknown.append(atom.src)
        if unknown:
            ck.undecided("C12-V1", st, K.loc(fn, call),
                         "guard of the class-bit call contains conditions the table rule cannot "
                         "interpret: %s" % unknown)
            ok = False
            continue
        # index variable must sweep 0..bound-1 in steps of one
        idx_stores = [(n2, t) for n2, t in C.stores(fn) if t.get("path") == idxvar]
        start_ok = any(n2.k in ("BinaryOperator",) and n2.get("op") == "=" and C.const_of(n2.child(1)) == 0
                       for n2, t in idx_stores)
        for d in fn.nodes.values():
            if d.k == "DeclStmt":
                for dd in d.get("decls", []):
                    if dd["name"] == idxvar and "init" in dd and C.const_of(fn.nodes[dd["init"]]) == 0:
                        start_ok = True
        if any(n2.get("op") == "=" and n2.child(1).strip_all_casts().get("path") == table for n2, t in idx_stores):
            start_ok = True           # pointer walk starting at the table's first row
        step_ok = all((n2.k == "UnaryOperator" and n2.get("op") == "++") or
                      (n2.get("op") == "=" and C.const_of(n2.child(1)) == 0) or
                      (n2.get("op") == "=" and n2.child(1).strip_all_casts().get("path") == table) or
                      (n2.get("op") == "+=" and C.const_of(n2.child(1)) == 1)
                      for n2, t in idx_stores)
        if bound is None or not start_ok or not step_ok:
            ck.undecided("C12-V1", st, K.loc(fn, call),
                         "cannot establish that `%s` sweeps 0..N-1 (bound=%s start0=%s step1=%s)"
                         % (idxvar, bound, start_ok, step_ok))
            ok = False
            continue
        nrows = min(bound, len(rows))
        if bound > len(rows):
            ck.violated("C12-V1", st, K.loc(fn, call),
                        "loop bound %d exceeds the %d rows of %s" % (bound, len(rows), table))
            ok = False
            continue
        for r in range(nrows):
            row = rows[r]
            if not isinstance(row, dict) or row.get("filler") or row.get("zero"):
                row = {}
            bit = row.get(bitfield, 0) or 0
            cons = [(f, op, row.get(f, 0) or 0) for (_, f, op) in constraints]
            # accepted interval of codes, by evaluation of the conjunction on all codes
            for code in range(-32768, 32768):
                if all(_cmp(op, code, v) for (f, op, v) in cons):
                    code_bits[code] = code_bits.get(code, 0) | bit
        ck.analysed(fn)
        ck._v1_info = {"table": table, "rows": len(rows), "rows_swept": nrows,
                       "constraints": ["code %s row.%s" % (op, f) for (_, f, op) in constraints]}
    if not ok:
        return
    bits = spec["esr_bits"]
    want = {}
    for c in spec["classes"]:
        for code in range(c["lo"], c["hi"] + 1):
            want[code] = want.get(code, 0) | bits[c["bit"]]
    # compare as intervals
    mism = []
    start = None
    prev = None
    for code in range(-32768, 32769):
        cur = None
        if code <= 32767:
            g, w = code_bits.get(code, 0), want.get(code, 0)
            cur = (g, w) if g != w else None
        if cur != prev:
            if prev is not None:
                mism.append((start, code - 1, prev[0], prev[1]))
            start = code
            prev = cur
    st = K.site(fn, "code->ESR-bit", 0)
    info = getattr(ck, "_v1_info", {})
    if mism:
        for n, (lo, hi, g, w) in enumerate(mism[:6]):
            ck.violated("C12-V1", K.site(fn, "code->ESR-bit[%d..%d]" % (lo, hi), 0), K.loc(fn),
                        "codes %d..%d set ESR bits 0x%02x, the standard prescribes 0x%02x "
                        "(witness: SCPI_ErrorPush(ctx, %d))" % (lo, hi, g, w, lo),
                        {"table": info, "codes": [lo, hi], "code_bits": g, "spec_bits": w})
    else:
        ck.holds("C12-V1", st, K.loc(fn),
                 "all 65536 codes map to the prescribed ESR bit; %s" % info, detail=info)


def rule_v1_eval(ck, prog, S, tier):
    """V1 / V1b / V1c decided by evaluating SCPI_ErrorPushEx itself on every error code (sa/interp.py): whatever the code
    is written like (range table with a loop, switch, if-chain, helper function), the register calls it makes for a given
    code are computed from the source.  Register accesses are logged, not executed; the queue is a real object so that the
    overflow path (full queue) is taken when asked for.  Returns False when the function cannot be evaluated (the symbolic
    rules then decide)."""
    from sa import interp as I
    fn = prog.fn("SCPI_ErrorPushEx")
    esr = prog.enumconst.get("SCPI_REG_ESR")
    if fn is None or esr is None or "_scpi_t" not in prog.records or "_scpi_error_t" not in prog.records:
        return False
    spec = K.load_spec("esr_classes.json")
    bits = spec["esr_bits"]

    def want_of(code):
        w = 0
        for c in spec["classes"]:
            if c["lo"] <= code <= c["hi"]:
                w |= bits[c["bit"]]
        return w

    def mkctx(size, count):
        ctx = I.zero_object(prog, {"tk": "record", "ct": "struct _scpi_t"})
        q = ctx.get("error_queue")
        if not isinstance(q, dict) or not {"size", "count", "wr", "rd", "data"} <= set(q):
            raise I.Stuck("unexpected error queue layout")
        q["size"], q["count"], q["wr"], q["rd"] = size, count, count % size, 0
        q["data"] = I.Ptr([I.zero_object(prog, {"tk": "record", "ct": "struct _scpi_error_t"}) for _ in range(size)], 0)
        return ctx
    lo, hi = -32768, 32767
    full = tier == "thorough" and ck.config == "A"
    dom = list(range(lo, hi + 1)) if full else sorted(K.breakpoints(prog, fn, lo, hi))
    m = I.Machine(prog, effects={"SCPI_RegSetBits": None, "SCPI_RegSet": None, "SCPI_RegClearBits": None}, max_steps=10 ** 10)
    got, foreign, notq = {}, None, None
    try:
        for code in dom:
            m.log = []
            ctx = mkctx(4, 0)
            m.run(fn, [I.Ptr([ctx], 0), code, 0, 0])
            b = 0
            for name, a in m.log:
                if len(a) >= 3 and a[1] == esr:
                    if name != "SCPI_RegSetBits":
                        foreign = foreign or (code, name)
                    elif isinstance(a[2], int):
                        b |= a[2]
            got[code] = b
            q = ctx["error_queue"]
            if q["count"] != 1 or q["data"].cont[0].get("error_code") != code:
                notq = notq or code
        # the full queue: the library queues its own code and must classify it as well
        own = {}
        for code in (-113, -220, 5):
            m.log = []
            ctx = mkctx(4, 4)
            for i_, e_ in enumerate(ctx["error_queue"]["data"].cont):
                e_["error_code"] = -100 - i_
            m.run(fn, [I.Ptr([ctx], 0), code, 0, 0])
            b = 0
            for name, a in m.log:
                if len(a) >= 3 and a[1] == esr and name == "SCPI_RegSetBits" and isinstance(a[2], int):
                    b |= a[2]
            queued = [e_.get("error_code") for e_ in ctx["error_queue"]["data"].cont]
            own[code] = (b, queued)
    except I.Stuck as e:
        ck.assume("C12-V1: SCPI_ErrorPushEx could not be evaluated (%s); decided by the symbolic table rule instead" % e)
        return False
    ck.analysed(fn)
    how = "all 65536 codes" if full else "%d codes: every region between the constants the classification compares with" % len(dom)
    # V1b: the class bit is applied with a set-bits call
    st = K.site(fn, "ESR-class-bit", 0)
    if foreign:
        ck.violated("C12-V1b", st, K.loc(fn), "for code %d the event status register is written with %s, which can lower other latched "
                    "ESR bits; a queued error must only SET the bit of its class" % foreign)
    else:
        ck.holds("C12-V1b", st, K.loc(fn), "the event status register is only written with SCPI_RegSetBits (%s)" % how)
    st = K.site(fn, "insert->classify", 0)
    if notq is not None:
        ck.violated("C12-V1b", st, K.loc(fn), "SCPI_ErrorPushEx(ctx, %d) does not leave exactly that code in an empty queue" % notq)
    else:
        ck.holds("C12-V1b", st, K.loc(fn), "every code is queued and classified in the same call (%s)" % how)
    # V1: partition
    mism = []
    cur = None
    for code in dom:
        g, w = got[code], want_of(code)
        if g != w:
            if cur is not None and cur[2] == g and cur[3] == w:
                cur[1] = code
            else:
                cur = [code, code, g, w]
                mism.append(cur)
        else:
            cur = None
    if mism:
        for lo_, hi_, g, w in mism[:6]:
            ck.violated("C12-V1", K.site(fn, "code->ESR-bit[%d..%d]" % (lo_, hi_), 0), K.loc(fn),
                        "codes %d..%d set ESR bits 0x%02x, the standard prescribes 0x%02x (witness: SCPI_ErrorPush(ctx, %d))"
                        % (lo_, hi_, g, w, lo_), {"codes": [lo_, hi_], "code_bits": g, "spec_bits": w})
    else:
        ck.holds("C12-V1", K.site(fn, "code->ESR-bit", 0), K.loc(fn), "%s map to the prescribed ESR bit" % how)
    # V1c: the library's own code on overflow
    for code, (b, queued) in sorted(own.items()):
        st = K.site(fn, "own-code-on-overflow(%d)" % code, 0)
        owncodes = [c for c in queued if c is not None and c != code and not (-104 <= c <= -100)]
        if not owncodes:
            ck.violated("C12-V1c", st, K.loc(fn), "pushing %d into a full queue leaves %s: no overflow marker is queued" % (code, queued))
            continue
        need = 0
        for c in owncodes:
            need |= want_of(c)
        if (b & need) != need:
            ck.violated("C12-V1c", st, K.loc(fn), "pushing %d into a full queue queues %s on the library's own account, but only ESR bits 0x%02x "
                        "are set: the class bit 0x%02x of the queued code is missing" % (code, owncodes, b, need))
        else:
            ck.holds("C12-V1c", st, K.loc(fn), "full queue: %s queued, ESR bits 0x%02x include its class bit 0x%02x" % (owncodes, b, need))
    return True


def rule_v1b(ck, prog, S, structural_only=False):
    got = K.need(ck, prog, "C12-V1b", "SCPI_ErrorPushEx", "SCPI_ErrorAddInternal")
    if not got:
        return
    push, add = got
    # who may insert into the error queue
    callers = sorted({f.name for f, c in prog.callers("SCPI_ErrorAddInternal")})
    st = K.site(add, "callers", 0)
    if callers != ["SCPI_ErrorPushEx"]:
        ck.violated("C12-V1b", st, K.loc(add),
                    "SCPI_ErrorAddInternal is called from %s; only SCPI_ErrorPushEx classifies" % callers)
    else:
        ck.holds("C12-V1b", st, K.loc(add), "only SCPI_ErrorPushEx inserts into the queue")
    n = 0
    for f in prog.functions.values():
        for c in f.calls("fifo_add"):
            a = C.call_args(c)
            if a and "error_queue" in (a[0].strip_all_casts().get("path") or ""):
                st2 = K.site(f, "fifo_add(error_queue)", n)
                n += 1
                if f.name != "SCPI_ErrorAddInternal":
                    ck.violated("C12-V1b", st2, K.loc(f, c), "queue insertion outside SCPI_ErrorAddInternal")
                else:
                    ck.holds("C12-V1b", st2, K.loc(f, c))
    if structural_only:
        return
    # every path of PushEx from the insertion to the exit evaluates the classification guard
    pg = S.pg(push)
    adds = list(push.calls("SCPI_ErrorAddInternal"))
    esr = prog.enumconst.get("SCPI_REG_ESR")
    setcalls = [c for c in push.calls("SCPI_RegSetBits")
                if len(C.call_args(c)) == 3 and C.const_of(C.call_args(c)[1]) == esr]
    if not adds or not setcalls:
        return
    # head of the loop that contains the class test: every path must evaluate it
    guard_blocks = set()
    for c in setcalls:
        b, i = push.where[c.id]
        for head, body in C.loops(push):
            if b.id in body:
                guard_blocks.add(head.id)
    if not guard_blocks:
        ck.anchor_lost("C12-V1b", "the class-bit call is not inside a loop over the range table")
        return
    for n2, a in enumerate(K.ordinal_sites(adds)):
        start = pg.after(a)
        reach = pg.reachable([start], blocked_point=lambda p: p[0] in guard_blocks and p[1] == 0)
        st3 = K.site(push, "insert->classify", n2)
        if pg.exit in reach:
            path = pg.find_path([start], lambda p: p == pg.exit,
                                blocked_edge=lambda e: e.dst[0] in guard_blocks and e.dst[1] == 0)
            ck.violated("C12-V1b", st3, K.loc(push, a),
                        "a path from the queue insertion to the return skips the classification",
                        {"path": pg.describe_path(path or [])})
        else:
            ck.holds("C12-V1b", st3, K.loc(push, a), "every path from the insertion evaluates the class test")


def rule_v2(ck, prog, S, model):
    fn = model.fn
    cond_cls = prog.enumconst.get("SCPI_REG_CLASS_COND")
    paths = [p for p in model.paths if cond_cls in p.classes]
    if not paths:
        ck.anchor_lost("C12-V2", "no arm for SCPI_REG_CLASS_COND in SCPI_RegSet")
        return
    for n, p in enumerate(paths):
        st = K.site(fn, "COND-arm-path", n)
        where = K.loc(fn, p.edges[-1][0].elems[0] if p.edges[-1][0].elems else None)
        if p.ends != "loop":
            ck.violated("C12-V2", st, where, "condition arm returns without storing the event register",
                        {"branches": [(a.src, pol) for a, pol in p.facts]})
            continue
        name = p.sym.get("name")
        if name != "register_group.event":
            ck.violated("C12-V2", st, where,
                        "condition arm continues with register `%s`, not the group's event register" % name)
            continue
        v = p.env.get("val")
        if v is None:
            ck.undecided("C12-V2", st, where, "value carried to the event register is not bitwise")
            continue
        leaves, f = v
        ev, old, new = "reg:register_group.event", "old_val", "val"
        pt, nt = "reg:register_group.ptfilt", "reg:register_group.ntfilt"
        filt_facts = {}
        for a, pol in p.facts:
            for atom, apol in C.cond_facts(a, pol):
                if atom.k == "BinaryOperator" and atom.get("op") in ("==", "!="):
                    l = atom.child(0).strip_all_casts().get("path")
                    r = C.const_of(atom.child(1))
                    none = prog.enumconst.get("SCPI_REG_NONE")
                    if l in ("register_group.ptfilt", "register_group.ntfilt") and r == none:
                        is_none = apol if atom["op"] == "==" else not apol
                        filt_facts[l] = is_none
        nofilter = filt_facts.get("register_group.ptfilt") and filt_facts.get("register_group.ntfilt")
        extra = set(leaves) - {ev, old, new, pt, nt}
        if extra and all(x.startswith("reg:") for x in extra):
            # the value latched depends on the content of another register than the group's own event register
            ck.violated("C12-V2", st, where,
                        "the value stored to the event register is computed from %s instead of the old content of the group's event "
                        "register: earlier latched events are lost / foreign bits are latched"
                        % sorted(x[4:] for x in extra), {"leaves": sorted(leaves)})
        elif extra:
            ck.undecided("C12-V2", st, where, "latch formula depends on unexpected inputs %s" % sorted(extra))
            continue
        if nofilter:
            spec = lambda a: a[ev] | (~a[old] & a[new])
            okk, wit = B.equivalent(leaves | {ev, old, new}, f, spec)
            if okk:
                ck.holds("C12-V2", st, where, "no-filter path: event := old event | (~old & new), by truth table")
            else:
                ck.violated("C12-V2", st, where,
                            "no-filter path: value stored to the event register differs from "
                            "old_event | rising bits", {"witness": wit})
        else:
            has_pt = filt_facts.get("register_group.ptfilt") is False
            has_nt = filt_facts.get("register_group.ntfilt") is False
            def spec(a):
                r = a[ev]
                if has_pt:
                    r |= (~a[old] & a[new]) & a[pt]
                if has_nt:
                    r |= (a[old] & ~a[new]) & a[nt]
                return r
            okk, wit = B.equivalent(leaves | {ev, old, new, pt, nt}, f, spec)
            if okk:
                ck.holds("C12-V2", st, where,
                         "filtered path (ptfilt %s, ntfilt %s): event := old | rise&PTR | fall&NTR"
                         % ("present" if has_pt else "absent", "present" if has_nt else "absent"))
            else:
                ck.violated("C12-V2", st, where,
                            "filtered path: stored value differs from old_event | (rise & PTR) | (fall & NTR)",
                            {"witness": wit})
    ck.floor("C12-V2", 2)


def rule_v3(ck, prog, S):
    spec = K.load_spec("status_model.json")
    clearers = {k: v for k, v in spec["event_clearers"].items() if not k.startswith("_")}
    # event registers from the group table
    g = prog.global_var("scpi_reg_group_details")
    d = prog.global_var("scpi_reg_details")
    if not g or not d:
        ck.anchor_lost("C12-V3", "register tables")
        return
    stb = prog.enumconst.get("SCPI_REG_STB")
    even = prog.enumconst.get("SCPI_REG_CLASS_EVEN")
    event_regs = {i for i, row in enumerate(d["init"]) if isinstance(row, dict) and row.get("type") == even}
    regenum = prog.enums.get("_scpi_reg_name_t") or prog.enums.get("scpi_reg_name_t") or {"consts": {}}
    regname = {v: k for k, v in regenum["consts"].items()}
    n = 0
    found = {}
    # effective lowering sites: (function that owns the operation, register, [(function, call node)...] down to the register
    # write).  A static helper that writes the register named by one of its parameters is judged at its call sites: the
    # caller that supplies the constant owns the operation (one or two levels of helpers).
    def leaf_sites(f):
        return K.ordinal_sites(list(f.calls("SCPI_RegSet")) + list(f.calls("SCPI_RegClearBits")))

    def param_index(f, expr):
        e = expr.strip_all_casts()
        if e.k == "DeclRefExpr" and e["decl"]["kind"] == "param":
            for i, p_ in enumerate(f.params):
                if p_["name"] == e["decl"]["name"]:
                    return i
        return None
    def row_param(f, expr):
        # `<param>->event` (or `<param>[0].event`): the helper is handed one row of a group table
        e = expr.strip_all_casts()
        if e.k != "MemberExpr" or not (e.get("path") or e.src or "").endswith("event"):
            return None
        b = e.child(0)
        while b is not None and b.k in ("ParenExpr", "ImplicitCastExpr", "CStyleCastExpr", "UnaryOperator", "ArraySubscriptExpr"):
            b = b.child(0)
        return param_index(f, b) if b is not None else None

    def row_from_table(g, argn):
        # the row handed over is a row of scpi_reg_group_details: named directly, or through a local pointer that is only
        # ever assigned from that table (and stepped)
        e = argn.strip_all_casts()
        pth = e.get("path") or ""
        if pth.lstrip("&").startswith("scpi_reg_group_details"):
            return True
        if e.k == "DeclRefExpr" and e["decl"]["kind"] == "local":
            name, srcs = e["decl"]["name"], []
            for n_ in g.nodes.values():
                if n_.k == "DeclStmt":
                    for dd in n_.get("decls", []):
                        if dd["name"] == name and "init" in dd:
                            srcs.append(g.nodes[dd["init"]])
                elif n_.k == "BinaryOperator" and n_.get("op") == "=" and n_.child(0).strip_all_casts().src == name:
                    srcs.append(n_.child(1))
                elif n_.k in ("BinaryOperator", "CompoundAssignOperator") and n_.get("op") in ("+=", "-=") \
                        and n_.child(0).strip_all_casts().src == name:
                    pass
            return bool(srcs) and all((x.strip_all_casts().get("path") or x.strip_all_casts().src or "").lstrip("&")
                                      .startswith("scpi_reg_group_details") for x in srcs)
        return False
    effective = []
    rowsrc = {}
    for f in sorted(prog.functions.values(), key=lambda f: (f.relfile, f.line)):
        for call in leaf_sites(f):
            a = C.call_args(call)
            if len(a) != 3:
                continue
            rp = row_param(f, a[1])
            if rp is not None and f.static:
                for g, c in prog.callers(f.name):
                    ca = C.call_args(c)
                    chain = [(g, c), (f, call)]
                    effective.append((g, None, chain))
                    rowsrc[id(chain)] = rp < len(ca) and row_from_table(g, ca[rp])
                continue
            pi = param_index(f, a[1])
            if pi is not None and f.static and f.name not in ("SCPI_RegSet", "SCPI_RegSetBits", "SCPI_RegClearBits"):
                for g, c in prog.callers(f.name):
                    ca = C.call_args(c)
                    if pi < len(ca) and C.const_of(ca[pi]) is not None:
                        effective.append((g, C.const_of(ca[pi]), [(g, c), (f, call)]))
                    elif pi < len(ca) and g.static and param_index(g, ca[pi]) is not None:
                        pj = param_index(g, ca[pi])
                        for g2, c2 in prog.callers(g.name):
                            ca2 = C.call_args(c2)
                            if pj < len(ca2) and C.const_of(ca2[pj]) is not None:
                                effective.append((g2, C.const_of(ca2[pj]), [(g2, c2), (g, c), (f, call)]))
                            else:
                                effective.append((g2, None, [(g2, c2), (g, c), (f, call)]))
                    else:
                        effective.append((g, None, [(g, c), (f, call)]))
                continue
            effective.append((f, C.const_of(a[1]), [(f, call)]))
    for f, reg, chain in effective:
        if True:
            lf, call = chain[-1]
            a = C.call_args(call)
            if lf.name in ("SCPI_RegSetBits", "SCPI_RegClearBits") and reg is None:
                # wrappers: register name is their own parameter; judged at their call sites
                # (SetBits stores old|bits: can only raise)
                continue
            if lf.name == "SCPI_RegSet":
                continue
            lowering = True
            if call["callee"] == "SCPI_RegSet":
                # old | x raises only
                v = a[2].strip_all_casts()
                if v.k == "BinaryOperator" and v.get("op") == "|":
                    for side in (v.child(0), v.child(1)):
                        s = side.strip_all_casts()
                        if s.k == "CallExpr" and s.get("callee") == "SCPI_RegGet" and \
                                C.call_args(s)[1].strip_all_casts().src == a[1].strip_all_casts().src:
                            lowering = False
            if not lowering:
                continue
            if reg is not None and reg not in event_regs:
                continue  # enable/condition/STB/SRE writes are not event clears
            st = K.site(f, "lower(%s)" % (regname.get(reg, "variable") if reg is not None else a[1].strip_all_casts().src), n)
            n += 1
            allowed = clearers.get(f.name)
            if allowed is None:
                ck.violated("C12-V3", st, K.loc(f, call),
                            "%s can lower event register %s but is not an operation defined to clear it"
                            % (f.name, regname.get(reg, a[1].src)), {"call": call.src})
                continue
            if "*" not in allowed and regname.get(reg) not in allowed:
                ck.violated("C12-V3", st, K.loc(f, call),
                            "%s clears %s; it is defined to clear only %s" % (f.name, regname.get(reg), allowed))
                continue
            found.setdefault(f.name, []).append(call)
            # must: every path of f passes through this clear (through every link of the helper chain)
            skipped = None
            for lfn, lcall in chain:
                pgl = S.pg(lfn)
                reach = pgl.reachable([pgl.entry], blocked_edge=lambda e, lcall=lcall: e.kind == "elem" and e.node is lcall)
                if pgl.exit in reach and "*" not in allowed:
                    skipped = (lfn, lcall, pgl)
                    break
            pg = S.pg(lf)
            if skipped:
                lfn, lcall, pgl = skipped
                path = pgl.find_path([pgl.entry], lambda p: p == pgl.exit,
                                     blocked_edge=lambda e: e.kind == "elem" and e.node is lcall)
                ck.violated("C12-V3", st, K.loc(lfn, lcall),
                            "%s can return without clearing %s" % (f.name, regname.get(reg)),
                            {"path": pgl.describe_path(path or [])})
                continue
            # queries: the result write precedes the clear and reads the same register
            if f.name.endswith("Q"):
                before = pg.reachable([pg.entry], blocked_edge=lambda e: e.kind == "elem" and e.node is call)
                res = [c for c in lf.calls() if (c.get("callee") or "").startswith("SCPI_Result")]
                okq = False
                for r in res:
                    ra = C.call_args(r)
                    inner = [x for x in r.walk() if x.k == "CallExpr" and x.get("callee") == "SCPI_RegGet"]
                    if inner and (C.const_of(C.call_args(inner[0])[1]) == reg if len(chain) == 1 else
                                  C.call_args(inner[0])[1].strip_all_casts().src == a[1].strip_all_casts().src):
                        # the result call must be evaluated on every path before the clear
                        reach2 = pg.reachable([pg.entry], blocked_edge=lambda e: e.kind == "elem" and e.node is r)
                        if pg.before(call) not in reach2:
                            okq = True
                if not okq:
                    ck.violated("C12-V3", st, K.loc(f, call),
                                "%s does not report %s before clearing it on every path" % (f.name, regname.get(reg)))
                    continue
            if "*" in allowed:
                # *CLS: loop over the group table clearing every event register except STB
                okc = False
                for atom, pol in (K.facts_at(S, lf, call) or []):
                    if atom.k == "BinaryOperator" and atom.get("op") in ("!=", "==") and not isinstance(pol, tuple):
                        if C.const_of(atom.child(1)) == stb and ((atom["op"] == "!=") == pol):
                            okc = True
                argp = a[1].strip_all_casts().get("path")
                # the register cleared is the .event field of a row of the group table: directly, or through a local copy
                src_ok = bool(argp) and argp.startswith("scpi_reg_group_details[") and argp.endswith(".event")
                if rowsrc.get(id(chain)):
                    src_ok = True   # the helper clears the .event field of the table row its caller hands it
                for dn in lf.nodes.values():
                    if dn.k == "DeclStmt":
                        for dd in dn.get("decls", []):
                            if dd["name"] == argp and "init" in dd:
                                ip = lf.nodes[dd["init"]].strip_all_casts().get("path", "")
                                if ip.startswith("scpi_reg_group_details[") and ip.endswith(".event"):
                                    src_ok = True
                val0 = C.const_of(a[2]) == 0
                if okc and src_ok and val0:
                    ck.holds("C12-V3", st, K.loc(f, call),
                             "*CLS: sets every group's event register except STB to 0")
                else:
                    ck.violated("C12-V3", st, K.loc(f, call),
                                "*CLS clear loop: register from group table=%s, STB excluded=%s, value 0=%s"
                                % (src_ok, okc, val0))
                continue
            ck.holds("C12-V3", st, K.loc(f, call), "%s clears %s on every path%s"
                     % (f.name, regname.get(reg), ", after reporting it" if f.name.endswith("Q") else ""))
    for name in clearers:
        if name not in found:
            f = prog.fn(name)
            if f is None:
                ck.anchor_lost("C12-V3", "clearing operation %s not found" % name)
            else:
                ck.violated("C12-V3", K.site(f, "clear", 0), K.loc(f),
                            "%s is defined to clear %s but contains no such write" % (name, clearers[name]))
    ck.floor("C12-V3", 5)


def rule_v4(ck, prog, S, model):
    fn = model.fn
    stbc = prog.enumconst.get("SCPI_REG_CLASS_STB")
    srec = prog.enumconst.get("SCPI_REG_CLASS_SRE")
    srq_ctrl = prog.enumconst.get("SCPI_CTRL_SRQ")
    stb = prog.enumconst.get("SCPI_REG_STB")
    sre = prog.enumconst.get("SCPI_REG_SRE")
    SRQ = 0x40
    calls_seen = 0
    arm_paths = [p for p in model.paths if set(p.classes) & {stbc, srec}]
    if not arm_paths:
        ck.anchor_lost("C12-V4", "no STB/SRE arm in SCPI_RegSet")
        return
    # group paths per class; for every class the call must be reached whenever MSS-test true and rise != 0
    per_class = {}
    for p in arm_paths:
        for c in p.classes:
            if c in (stbc, srec):
                per_class.setdefault(c, []).append(p)
    for c in (stbc, srec):
        cname = class_names(prog, [c])[0]
        st = K.site(fn, "SRQ(%s)" % cname, 0)
        ps = per_class.get(c, [])
        if not ps:
            ck.violated("C12-V4", st, K.loc(fn), "register class %s is not routed to the MSS arm" % cname)
            continue
        # each path: sequence of events. Find control call paths and non-call paths.
        problems = []
        covered_rise = False
        for p in ps:
            ctrl = [e for e in p.events if e[0] == "call" and e[1].get("callee") == "writeControl"]
            mss_true = None
            guard_ok_always = True
            # evaluate branch atoms in order: first branch whose truth table == (stb&~SRQ)&(sre&~SRQ)
            seen_set6 = False
            after_mss = []
            mss_pol = None
            for ev in p.events:
                if ev[0] == "branch":
                    atom, pol = ev[1]
                    val = None
                    try:
                        from .regset import truth_of
                        # the truth function of the condition as it was when the branch was taken (`x`, `x != 0`, `0 != x`)
                        val = p.btruth.get(atom.id) or truth_of(p, atom)
                    except Exception:
                        val = None
                    if mss_pol is None and val is not None:
                        leaves, f = val
                        specf = lambda a: (a["reg:%d" % stb] & ~SRQ) & (a["reg:%d" % sre] & ~SRQ)
                        okk, wit = B.equivalent(set(leaves) | {"reg:%d" % stb, "reg:%d" % sre}, f, specf)
                        if okk:
                            mss_pol = pol
                            continue
                    if mss_pol is not None:
                        after_mss.append((atom, pol, val))
                elif ev[0] == "regstore":
                    key, v, node = ev[1]
                    if key == "reg:%d" % stb and mss_pol is not None:
                        seen_set6 = True
                elif ev[0] == "call" and ev[1].get("callee") == "writeControl":
                    calls_seen += 1
                    call = ev[1]
                    a = C.call_args(call)
                    if mss_pol is not True:
                        problems.append(("call not on the MSS-true edge", call))
                    if not seen_set6:
                        problems.append(("call before bit 6 is stored in STB", call))
                    if C.const_of(a[1]) != srq_ctrl:
                        problems.append(("control code is not SCPI_CTRL_SRQ", call))
                    v = a[2].strip_all_casts()
                    if "reg:%d" % stb != (leaf_of(p, v)):
                        problems.append(("value passed is `%s`, not the status byte" % v.src, call))
            if mss_pol is None:
                problems.append(("no branch on (STB & ~0x40) & (SRE & ~0x40) found on a path of the arm", None))
                continue
            # on MSS-true paths: the call is reached iff the remaining guards hold; they must hold
            # whenever a bit rose. Remaining guards must be bitwise over old_val/val with
            # truth table >= rise, or comparisons of the class variable with constants.
            if mss_pol is True:
                has_call = bool(ctrl)
                # evaluate guard conjunction under "rise != 0": find an assignment with rise and guard false
                for atom, pol, val in after_mss:
                    if val is None:
                        # class comparison?
                        a0 = atom
                        if a0.k == "BinaryOperator" and a0.get("op") in ("==", "!=") and \
                                a0.child(0).strip_all_casts().get("path") == (model.switch.cond.get("path")):
                            k = C.const_of(a0.child(1))
                            truth = (c == k) if a0["op"] == "==" else (c != k)
                            if truth != pol:
                                # infeasible path for this class
                                has_call = None
                                break
                            continue
                        problems.append(("guard `%s` between the MSS test and the SRQ call cannot be interpreted" % atom.src, atom))
                if has_call is None:
                    continue
                # bitwise guards: check that the path WITHOUT call is infeasible when a bit rose
                if not has_call:
                    # conjunction of bitwise guards with polarities on this path must imply rise == 0
                    gl = [(val, pol) for atom, pol, val in after_mss if val is not None]
                    leaves = set()
                    for (lv, f), pol in gl:
                        leaves |= lv
                    leaves |= {"old_val", "val"}
                    order = sorted(leaves)
                    feasible_with_rise = None
                    for bit_old, bit_new in ((0, 1),):
                        for vals in itertools.product((0, 0xFFFF), repeat=len(order)):
                            a = dict(zip(order, vals))
                            rise = ~a["old_val"] & a["val"] & 0xFFFF
                            if not rise:
                                continue
                            if all(((f(a) & 0xFFFF) != 0) == pol for (lv, f), pol in gl):
                                feasible_with_rise = a
                                break
                    if feasible_with_rise is not None or not gl:
                        problems.append(("class %s: MSS-true path without the SRQ call is feasible although a "
                                         "bit of the written register rose" % cname, None))
                else:
                    covered_rise = True
        if problems:
            what, node = problems[0]
            ck.violated("C12-V4", st, K.loc(fn, node) if node is not None else K.loc(fn),
                        "%s (register class %s)" % (what, cname), {"all": [w for w, _ in problems]})
        elif not covered_rise:
            ck.violated("C12-V4", st, K.loc(fn), "no SRQ call reachable for register class %s" % cname)
        else:
            ck.holds("C12-V4", st, K.loc(fn),
                     "class %s: SRQ call on MSS-true edge, after bit 6 store, with STB, reached whenever a bit rose" % cname)
    # SRQ control is issued nowhere else
    n = 0
    for f in prog.functions.values():
        for call in f.calls("writeControl"):
            a = C.call_args(call)
            if len(a) == 3 and C.const_of(a[1]) == srq_ctrl and f.name != "SCPI_RegSet":
                ck.violated("C12-V4", K.site(f, "SRQ-elsewhere", n), K.loc(f, call),
                            "SRQ call-back issued outside the MSS computation")
                n += 1


def leaf_of(p, v):
    from .regset import leaf_key_factory
    return leaf_key_factory(p)(v)


def run(ck, fb, tier):
    for cfg in fb.configs:
        ck.config = cfg
        prog = fb[cfg]
        S = K.summaries(prog)
        if rule_v1_eval(ck, prog, S, tier):
            rule_v1b(ck, prog, S, structural_only=True)
        else:
            rule_v1(ck, prog, S)
            rule_v1c(ck, prog, S)
            rule_v1b(ck, prog, S)
        got = K.need(ck, prog, "C12-V2", "SCPI_RegSet")
        if got:
            model = RegSetModel(got[0], prog)
            if model.problems:
                for pr in model.problems:
                    ck.anchor_lost("C12-V2", pr)
            else:
                rule_v2(ck, prog, S, model)
                rule_v4(ck, prog, S, model)
        rule_v3(ck, prog, S)
        from . import c06
        c06.rule_transport(ck, prog, S, which=(("writeControl", "control"),), rule="C12-V4",
                           why="the wrapper filters announcements by state of its own, so a rise of MSS that the propagation decided to "
                               "announce (V4) does not reach the call-back (a second service request with the same status byte is swallowed)")
    ck.trust("spec/esr_classes.json and spec/status_model.json transcribe SCPI-99 21.8 / IEEE 488.2 ch.11 correctly")
    ck.assume("user call-backs (interface->control/error) do not write the registers directly")

TECHNIQUE = ("static analysis: table audit by interval evaluation over all int16 codes, branch-fact "
             "must-dataflow, truth-table equivalence of bitwise formulas extracted along CFG paths, "
             "who-may-call and must-pass-through over clang CFGs")
LEVEL_TEXT = ("Clause-level static decision (not a proof of the behavioural property): the code->ESR-bit "
              "map is decided for all 65536 codes from the table initialiser and the guard's comparison "
              "orientation; the latch formula is decided for all bit values by truth table; clearers and "
              "the SRQ call are decided per call site on all CFG paths. Right level because each clause "
              "is visible in the shape of the code on every path; histories are covered because no rule "
              "depends on a runtime value.")
LEVEL_NOTE = ("Trusted: clang front end/CFG, the extractor, spec/esr_classes.json and spec/status_model.json "
              "(transcribed from SCPI-99 21.8 and IEEE 488.2 ch.11). Assumes user call-backs do not write "
              "registers directly. Does not decide the full 'whenever MSS rises' trace property.")
DESIGN_REF = "DESIGN.md section 5, C12"
