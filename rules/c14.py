"""C14 — integer-to-text conversion is exact for every value, base and buffer size."""
from sa import cfg as C
from sa import paths as P
from . import common as K
from . import boundsrules as BR

CONFIGS_QUICK = ["A"]
CONFIGS_THOROUGH = ["A", "B", "C", "D", "E"]

EXPLANATION = (
    "Static, clause-level decision of C14 for UInt32ToStrBaseSign, UInt64ToStrBaseSign and the four "
    "wrappers. Decided: (B1) every store into the caller's buffer is inside it for every buffer "
    "length >= 0 (bounds engine: linear facts from dominating guards, Fourier-Motzkin) and the "
    "terminating NUL is stored whenever a byte remains; (B2) every character store uses the "
    "running position as index and advances it by one, the function returns that position, and "
    "- necessary for 'the leading characters that fit' - every test that can stop the emission "
    "compares the position with the buffer length itself, not with a smaller bound; (T1) the "
    "initial divisor of each radix is the largest power of the radix representable in the width "
    "(2^31, 8^10, 10^9, 16^7; 2^63, 8^21, 10^19, 16^15), any other radix is normalised to 10 "
    "before it is used as divisor, and the digit alphabet is 0123456789ABCDEF; (U2) '-' is "
    "emitted only under sign && (signed)val < 0 && base == 10 and the magnitude is obtained by "
    "negation in the unsigned type; (W) the wrappers pass (base 10, signed) / (base, unsigned); "
    "(T2) the digit step has the shape digit = uval / x, alphabet[digit], uval -= digit * x, x /= base, with "
    "leading zeros skipped while uval / x == 0 and the loop running while x != 0. NOT decided: the arithmetic "
    "fact that this step yields the canonical digits (a non-linear invariant, 0 <= uval < x * base).")

RULES = {
    "C14-N": "no integer on this property's data path is narrowed by an implicit conversion (parameter handed to a narrower parameter, stored in a narrower field, or a narrow field behind a wider accessor)",
    "C14-B1": "every store into the caller's buffer is in bounds for every length >= 0; NUL stored whenever a byte remains",
    "C14-B2": "characters are stored at the running position, which advances by one per character and is returned; emission stops only on position >= len",
    "C14-T1": "initial divisor per radix is the largest power representable; other radixes normalised to 10 before use; digit alphabet 0-9A-F",
    "C14-T2": "digit step: the character stored is alphabet[uval / x], the remainder is uval - digit * x (or uval % x), leading zeros are skipped while uval / x == 0, the loop runs while x != 0",
    "C14-U2": "'-' only under sign && (signed)val < 0 && base == 10; magnitude by unsigned negation",
    "C14-W": "wrappers: Int*ToStr -> (10, signed), UInt*ToStrBase -> (base, unsigned)",
}

FORMATTERS = (("UInt32ToStrBaseSign", 32), ("UInt64ToStrBaseSign", 64))


def largest_power(b, bits):
    p = 1
    while p * b < (1 << bits):
        p *= b
    return p


def delegating_returns(f):
    """`return <other formatter>(v, str, len, ...)`: the callee (analysed itself) discharges termination / count"""
    names = [n_ for n_, _ in FORMATTERS if n_ != f.name]
    buf, cap = f.params[1]["name"], f.params[2]["name"]
    out = []
    for r in f.nodes.values():
        if r.k == "ReturnStmt" and r.ch:
            c = r.child(0).strip_all_casts()
            if c.k == "CallExpr" and c.get("callee") in names:
                a = C.call_args(c)
                if len(a) >= 3 and a[1].strip_all_casts().get("path") == buf and a[2].strip_all_casts().get("path") == cap:
                    out.append(r)
    return out


def rule_b1(ck, prog):
    for name, bits in FORMATTERS:
        BR.check_function(ck, prog, "C14-B1", name, min_sites=3, only=lambda s: s.kind in ("store", "call"))
        f = prog.fn(name)
        if f is None:
            continue
        # final NUL: a store of 0 at str[pos] guarded exactly by pos < len, reached on every path
        S = K.summaries(prog)
        pg = S.pg(f)
        buf, cap = f.params[1]["name"], f.params[2]["name"]
        nul = [n for n, t in C.stores(f) if t.k == "ArraySubscriptExpr" and t.child(0).strip_all_casts().get("path") == buf
               and n.get("op") == "=" and C.const_of(n.child(1)) == 0]
        st = K.site(f, "final-NUL", 0)
        if len(nul) != 1:
            ck.violated("C14-B1", st, K.loc(f), "expected one terminating-NUL store, found %d" % len(nul))
            continue
        n = nul[0]
        idx = n.child(0).strip().child(1).strip_all_casts().get("path")
        b, i = f.where[n.id]
        # the guarding branch: nearest dominating two-way branch
        guard = None
        for p in b.preds:
            if p.cond is not None and len(p.succs) == 2 and p.succs[0] is b:
                guard = p
        okg = False
        if guard is not None:
            c = guard.cond
            okg = c.k == "BinaryOperator" and c.get("op") == "<" and c.child(0).strip_all_casts().get("path") == idx and \
                c.child(1).strip_all_casts().get("path") == cap
        # the guard block lies on every path to the exit
        dele = delegating_returns(f)
        on_all = guard is not None and pg.exit not in pg.reachable([pg.entry], blocked_point=lambda p: p == (guard.id, 0),
                                                                 blocked_edge=lambda e: e.kind == "elem" and e.node in dele)
        if okg and on_all:
            ck.holds("C14-B1", st, K.loc(f, n), "`%s[%s] = 0` under %s < %s on every path" % (buf, idx, idx, cap))
        else:
            ck.violated("C14-B1", st, K.loc(f, n),
                        "the terminating NUL is not stored exactly when a byte remains (guard `%s`, on every path: %s)"
                        % (guard.cond.src if guard is not None and guard.cond is not None else None, on_all))


def rule_b2(ck, prog):
    S = K.summaries(prog)
    for name, bits in FORMATTERS:
        f = prog.fn(name)
        if f is None:
            ck.anchor_lost("C14-B2", name)
            continue
        buf, cap = f.params[1]["name"], f.params[2]["name"]
        stores = [n for n, t in C.stores(f) if t.k == "ArraySubscriptExpr" and t.child(0).strip_all_casts().get("path") == buf]
        chars = [n for n in stores if not (n.get("op") == "=" and C.const_of(n.child(1)) == 0)]
        posvars = set()
        for i, n in enumerate(K.ordinal_sites(chars)):
            st = K.site(f, "char-store", i)
            idx = n.child(0).strip().child(1).strip()
            if idx.k == "UnaryOperator" and idx.get("op") == "++" and idx.get("postfix"):
                posvars.add(idx.child(0).strip().get("path"))
                ck.holds("C14-B2", st, K.loc(f, n), "`%s`: stored at the position, which advances by one" % n.src[:40])
                continue
            # the same in two statements: str[pos] = c; pos++;  (next store in the same block is the increment of pos)
            ip = idx.strip_all_casts().get("path")
            blk, bi = f.where.get(n.id, (None, None))
            nxt = None
            if blk is not None and ip:
                for e in blk.elems[bi + 1:]:
                    if C.store_target(e) is not None:
                        nxt = e
                        break
            if nxt is not None and C.store_target(nxt).get("path") == ip and \
                    ((nxt.k == "UnaryOperator" and nxt.get("op") == "++") or (nxt.get("op") == "+=" and C.const_of(nxt.child(1)) == 1)):
                posvars.add(ip)
                ck.holds("C14-B2", st, K.loc(f, n), "`%s; %s`: stored at the position, which then advances by one" % (n.src[:30], nxt.src[:12]))
            else:
                ck.violated("C14-B2", st, K.loc(f, n), "character stored at `%s`, not at the post-incremented running position" % idx.src)
        st = K.site(f, "returns-position", 0)
        dele = delegating_returns(f)
        rets = [n for n in f.nodes.values() if n.k == "ReturnStmt" and n.ch and n not in dele]
        if len(posvars) == 1 and rets and all(r.child(0).strip_all_casts().get("path") in posvars for r in rets):
            ck.holds("C14-B2", st, K.loc(f, rets[0]), "returns the running position")
        else:
            ck.violated("C14-B2", st, K.loc(f, rets[0] if rets else None), "the number of characters produced is not what is returned")
        # other writers of the position
        pos = next(iter(posvars)) if len(posvars) == 1 else None
        if pos:
            others = [n for n, t in C.stores(f) if t.get("path") == pos and not (n.k == "UnaryOperator" and n.get("op") == "++")
                      and not (n.get("op") == "+=" and C.const_of(n.child(1)) == 1)
                      and not (n.get("op") == "=" and C.const_of(n.child(1)) == 0)]
            inits = [d for d in f.nodes.values() if d.k == "DeclStmt" for dd in d.get("decls", []) if dd["name"] == pos and "init" in dd
                     and C.const_of(f.nodes[dd["init"]]) == 0]
            st = K.site(f, "position-writers", 0)
            if others or not inits:
                ck.violated("C14-B2", st, K.loc(f, others[0]) if others else K.loc(f), "the running position is changed other than by one per character, or does not start at 0")
            else:
                ck.holds("C14-B2", st, K.loc(f), "starts at 0, changed only by the character stores")
            # every comparison that involves the position compares it with the buffer length itself
            k = 0
            for n in K.ordinal_sites([x for x in f.nodes.values() if x.k == "BinaryOperator" and x.get("op") in ("<", "<=", ">", ">=", "==", "!=")]):
                l, r = n.child(0).strip_all_casts(), n.child(1).strip_all_casts()
                if any(x.get("path") == pos for x in n.walk() if x.k == "DeclRefExpr"):
                    st = K.site(f, "position-test", k)
                    k += 1
                    if n.get("op") == "<" and l.get("path") == pos and r.get("path") == cap:
                        ck.holds("C14-B2", st, K.loc(f, n), "`%s`" % n.src)
                    else:
                        ck.violated("C14-B2", st, K.loc(f, n),
                                    "emission is controlled by `%s` instead of `%s < %s`: with a short buffer the function "
                                    "stops before the buffer is full (or runs past it) - not 'the leading characters that fit'"
                                    % (n.src, pos, cap))
        ck.analysed(f)
    ck.floor("C14-B2", 8)


def rule_t1_u2(ck, prog):
    for name, bits in FORMATTERS:
        f = prog.fn(name)
        if f is None:
            continue
        # divisor variable = the local that is stepped down by `/= base`; its first value per radix is read off the
        # paths of the function specialised to that radix (independent of switch / if-chain shape)
        base = f.params[3]["name"]
        st = K.site(f, "divisor-table", 0)
        divs = [t.get("path") for n, t in C.stores(f) if n.get("op") == "/=" and n.child(1).strip_all_casts().get("path") == base]
        if not divs:
            ck.violated("C14-T1", st, K.loc(f), "no divisor that is stepped down by the radix")
            continue
        xname = divs[0]
        table, norm = {}, {}
        # (divisor, radix in use) at the first division of the value, for each requested radix: the function is evaluated with
        # the radix as the only known argument (value, buffer, length and sign flag unknown, decisions on them followed both
        # ways) up to the first division whose dividend is unknown - a switch, an if-chain and a table lookup all end there
        # with the same pair
        from sa import interp as I
        evaluated = True
        for radix in (2, 8, 10, 16, 7):
            def obs(kind, node, ops, fr, _b=base):
                if kind == "arith" and node.get("op") in ("/", "/=", "%", "%=") and ops[0] is I.TOP and ops[1] is not I.TOP:
                    raise I.StopPath((ops[1], fr.vars[_b][0]))
            try:
                outs, _m = I.explore(prog, f.name, [I.TOP, I.TOP, I.TOP, radix, I.TOP], observer=obs)
            except I.Stuck:
                evaluated = False
                break
            hits = [o[0][1] for o in outs if isinstance(o[0], tuple) and o[0] and o[0][0] == "stopped"]
            table[radix] = {h[0] for h in hits}
            norm[radix] = {h[1] for h in hits}
        if not evaluated:
            table, norm = {}, {}
        for radix in (() if evaluated else (2, 8, 10, 16, 7)):
            firsts, bases = set(), set()
            for ps in P.summarize(f, max_visits=1, params={base: radix}):
                fx, lastb = None, None
                for ev in ps.events:
                    if ev[0] == "store":
                        t = C.store_target(ev[1])
                        if t.get("path") == xname and fx is None and ev[1].get("op") == "=":
                            fx = C.const_of(ev[1].child(1))
                        if t.get("path") == base and ev[1].get("op") == "=":
                            lastb = C.const_of(ev[1].child(1))
                if fx is not None:
                    firsts.add(fx)
                    bases.add(lastb if lastb is not None else radix)
            table[radix] = firsts
            norm[radix] = bases
        probs = []
        mask = (1 << bits) - 1
        for radix in (2, 8, 10, 16):
            want = largest_power(radix, bits)
            got = {x & mask for x in table.get(radix, set()) if x is not None}
            if got != {want}:
                probs.append("radix %d starts with divisor %s, the largest power below 2^%d is %d" % (radix, sorted(got), bits, want))
        got7 = {x & mask for x in table.get(7, set()) if x is not None}
        if got7 != {largest_power(10, bits)} or norm.get(7) != {10}:
            probs.append("an unsupported radix is not normalised to 10 before the division (divisor %s, radix used %s)" % (sorted(got7), sorted(norm.get(7, []))))
        if probs:
            ck.violated("C14-T1", st, K.loc(f), "; ".join(probs))
        else:
            ck.holds("C14-T1", st, K.loc(f), "2/8/10/16 -> %s; any other radix -> 10" % [largest_power(r, bits) for r in (2, 8, 10, 16)])
        # divisor only divided by the (normalised) base afterwards
        st = K.site(f, "divisor-steps", 0)
        steps = [n for n, t in C.stores(f) if t.get("path") == xname and n.get("op") not in ("=",)]
        init0 = True
        okst = all(n.get("op") == "/=" and n.child(1).strip_all_casts().get("path") == base for n in steps)
        if steps and okst:
            ck.holds("C14-T1", st, K.loc(f, steps[0]), "divisor /= base (%d sites)" % len(steps))
        else:
            ck.violated("C14-T1", st, K.loc(f), "the divisor is not stepped down by the radix")
        # alphabet
        st = K.site(f, "alphabet", 0)
        lits = [n.get("str") for n in f.nodes.values() if n.k == "StringLiteral"]
        if "0123456789ABCDEF" in lits:
            ck.holds("C14-T1", st, K.loc(f), "digits 0123456789ABCDEF")
        else:
            ck.violated("C14-T1", st, K.loc(f), "digit alphabet is %s" % lits)
        # U2 sign
        S = K.summaries(prog)
        minus = [n for n, t in C.stores(f) if n.get("op") == "=" and C.const_of(n.child(1)) == ord("-")]
        st = K.site(f, "sign", 0)
        if len(minus) != 1:
            ck.violated("C14-U2", st, K.loc(f), "expected one '-' store, found %d" % len(minus))
            continue
        facts = K.facts_at(S, f, minus[0]) or []
        sgn = f.params[4]["name"]
        val = f.params[0]["name"]
        have = set()
        for a, pol in facts:
            if isinstance(pol, tuple):
                continue
            if a.get("path") == sgn and pol:
                have.add("sign")
            if a.k == "BinaryOperator" and a.get("op") == "<" and pol and C.const_of(a.child(1)) == 0:
                inner = a.child(0).strip()
                if inner.k == "CStyleCastExpr" and inner.get("signed") and inner.get("bits") == bits and \
                        inner.child(0).strip_all_casts().get("path") == val:
                    have.add("negative")
            if a.k == "BinaryOperator" and a.get("op") == "==" and pol and C.const_of(a.child(1)) == 10 and \
                    a.child(0).strip_all_casts().get("path") == base:
                have.add("base10")
        neg = [n for n, t in C.stores(f) if n.get("op") == "=" and n.child(1).strip_all_casts().k == "UnaryOperator"
               and n.child(1).strip_all_casts().get("op") == "-"]
        uns_ok = bool(neg) and all(n.child(1).strip_all_casts().get("signed") is False and
                                   (n.child(1).strip_all_casts().get("bits") or 0) >= bits for n in neg)
        # 'any other base meaning 10': with an unsupported radix the sign must still be reachable, i.e. the radix test
        # of the sign guard sees the normalised radix
        reach7 = False
        for ps in P.summarize(f, max_visits=1, params={base: 7, sgn: 1}):
            if any(ev[0] == "store" and ev[1] is minus[0] for ev in ps.events):
                reach7 = True
                break
        # a 64-bit value is never handed to a narrower formatter together with the sign flag
        narrow = [c for c in f.calls() if c.get("callee") in [n_ for n_, b_ in FORMATTERS if b_ < bits]
                  and len(C.call_args(c)) >= 5 and C.const_of(C.call_args(c)[4]) != 0]
        if narrow:
            ck.violated("C14-U2", K.site(f, "no-signed-delegation", 0), K.loc(f, narrow[0]),
                        "%s hands its value to %s together with the sign flag: a positive %d-bit value whose bit 31 is set "
                        "is printed as a negative number" % (name, narrow[0]["callee"], bits))
        elif bits == 64:
            ck.holds("C14-U2", K.site(f, "no-signed-delegation", 0), K.loc(f), "no delegation to a narrower signed formatter", nontrivial=False)
        if have == {"sign", "negative", "base10"} and uns_ok and not reach7:
            ck.violated("C14-U2", st, K.loc(f, minus[0]),
                        "with a radix other than 2/8/10/16 (which means 10) no path reaches the '-' store: the sign guard tests the "
                        "radix before it is normalised, negative signed values are printed as huge unsigned numbers")
        elif have == {"sign", "negative", "base10"} and uns_ok:
            ck.holds("C14-U2", st, K.loc(f, minus[0]), "'-' under sign && (int%d_t)val < 0 && base == 10; magnitude = -val in uint%d_t" % (bits, bits))
        else:
            ck.violated("C14-U2", st, K.loc(f, minus[0]),
                        "'-' is emitted under %s (needs sign, negative, base10); unsigned negation: %s" % (sorted(have), uns_ok))


def rule_t2(ck, prog):
    for name, bits in FORMATTERS:
        f = prog.fn(name)
        if f is None:
            continue
        base = f.params[3]["name"]
        divs = [t.get("path") for n, t in C.stores(f) if n.get("op") == "/=" and n.child(1).strip_all_casts().get("path") == base]
        st = K.site(f, "digit-step", 0)
        if not divs:
            ck.anchor_lost("C14-T2", "%s: divisor" % name)
            continue
        x = divs[0]
        probs = []

        def is_quot(e, num=None):
            e = e.strip_all_casts()
            while e.k == "ParenExpr":
                e = e.child(0).strip_all_casts()
            return e.k == "BinaryOperator" and e.get("op") == "/" and e.child(1).strip_all_casts().get("path") == x and \
                (num is None or e.child(0).strip_all_casts().get("path") == num) and e.child(0).strip_all_casts().get("path")
        # the value variable: the numerator of the quotient assigned to the digit
        dig = uv = None
        for n, t in C.stores(f):
            if n.get("op") == "=" and t.k == "DeclRefExpr":
                q = is_quot(n.child(1))
                if q:
                    dig, uv = t.get("path"), q
        if dig is None:
            # digit used inline: alphabet[uval / x]
            for n in f.nodes.values():
                if n.k == "ArraySubscriptExpr" and is_quot(n.child(1)):
                    uv = is_quot(n.child(1))
        if uv is None:
            ck.violated("C14-T2", st, K.loc(f), "no digit is computed as <value> / %s" % x)
            continue
        # character = alphabet[digit]
        alpha = [d["name"] for n in f.nodes.values() if n.k == "DeclStmt" for d in n.get("decls", [])
                 if "init" in d and f.nodes[d["init"]].strip_all_casts().k == "StringLiteral"]
        loads = [n for n in f.nodes.values() if n.k == "ArraySubscriptExpr" and n.child(0).strip_all_casts().get("path") in alpha]
        if not loads or not all((l.child(1).strip_all_casts().get("path") == dig) or is_quot(l.child(1), uv) for l in loads):
            probs.append("the character stored is not alphabet[%s / %s]" % (uv, x))
        # remainder
        rem_ok = False
        for n, t in C.stores(f):
            if t.get("path") != uv:
                continue
            r = n.child(1).strip_all_casts() if n.ch and len(n.ch) > 1 else None
            while r is not None and r.k == "ParenExpr":
                r = r.child(0).strip_all_casts()
            if n.get("op") == "-=" and r is not None and r.k == "BinaryOperator" and r.get("op") == "*":
                ops = {r.child(0).strip_all_casts().get("path"), r.child(1).strip_all_casts().get("path")}
                if ops == {dig, x}:
                    rem_ok = True
            if n.get("op") == "%=" and r is not None and r.get("path") == x:
                rem_ok = True
            if n.get("op") == "=" and r is not None and r.k == "BinaryOperator" and r.get("op") == "%" and \
                    r.child(0).strip_all_casts().get("path") == uv and r.child(1).strip_all_casts().get("path") == x:
                rem_ok = True
        if not rem_ok:
            probs.append("the remainder is not %s - digit * %s" % (uv, x))
        # leading zeros: a loop whose condition is (uval / x) == 0 and whose body only steps the divisor down
        lz = [b for b in f.blocks.values() if b.term_kind in ("WhileStmt", "ForStmt") and b.cond is not None and b.cond.k == "BinaryOperator"
              and b.cond.get("op") == "==" and C.const_of(b.cond.child(1)) == 0 and is_quot(b.cond.child(0), uv)]
        if len(lz) != 1:
            probs.append("leading zeros are not skipped by `while (%s / %s == 0)`" % (uv, x))
        # the digit loop continues while x != 0
        cont = [b for b in f.blocks.values() if b.term_kind == "DoStmt" or (b.cond is not None and b.cond.get("path") == x)]
        xs = [b for b in f.blocks.values() if b.cond is not None and (b.cond.strip_all_casts().get("path") == x or
              (b.cond.k == "BinaryOperator" and b.cond.get("op") in ("!=", ">") and b.cond.child(0).strip_all_casts().get("path") == x
               and C.const_of(b.cond.child(1)) == 0))]
        if not xs:
            probs.append("the digit loop is not controlled by %s != 0" % x)
        if probs:
            ck.violated("C14-T2", st, K.loc(f), "; ".join(probs))
        else:
            ck.holds("C14-T2", st, K.loc(f), "digit = %s / %s; alphabet[digit]; %s -= digit * %s; %s /= base while %s" % (uv, x, uv, x, x, x))


def rule_w(ck, prog):
    want = {"SCPI_Int32ToStr": ("UInt32ToStrBaseSign", 10, 1), "SCPI_UInt32ToStrBase": ("UInt32ToStrBaseSign", "base", 0),
            "SCPI_Int64ToStr": ("UInt64ToStrBaseSign", 10, 1), "SCPI_UInt64ToStrBase": ("UInt64ToStrBaseSign", "base", 0)}
    for name, (callee, base, sign) in want.items():
        f = prog.fn(name)
        if f is None:
            ck.anchor_lost("C14-W", name)
            continue
        st = K.site(f, "wrapper", 0)
        calls = list(f.calls(callee))
        if len(calls) != 1:
            ck.violated("C14-W", st, K.loc(f), "%s does not call %s" % (name, callee))
            continue
        a = C.call_args(calls[0])
        gb = C.const_of(a[3]) if base == 10 else a[3].strip_all_casts().get("path")
        gs = C.const_of(a[4])
        pass_ok = a[1].strip_all_casts().get("path") == f.params[1]["name"] and a[2].strip_all_casts().get("path") == f.params[2]["name"]
        # the wrapper adds nothing of its own: every return hands back the worker's count and it never writes the buffer itself
        own_writes = [n for n, t in C.stores(f) if t.k in ("ArraySubscriptExpr", "UnaryOperator") and
                      t.child(0).strip_all_casts().get("path") == f.params[1]["name"]]
        S_ = K.summaries(prog)
        pg_ = S_.pg(f)
        bypass = pg_.exit in pg_.reachable([pg_.entry], blocked_edge=lambda e: e.kind == "elem" and e.node is calls[0])
        if own_writes or bypass:
            ck.violated("C14-W", st, K.loc(f, (own_writes or calls)[0]),
                        "%s has a path of its own beside the call of %s (%s): digits produced there do not honour the radix / sign / "
                        "length rules of the worker (for instance 5 in base 2 comes out as `5`)"
                        % (name, callee, "it writes the buffer itself" if own_writes else "a return that bypasses the worker"))
        elif gb == base and gs == sign and pass_ok:
            ck.holds("C14-W", st, K.loc(f, calls[0]), "(%s, %s)" % (base, "signed" if sign else "unsigned"))
        else:
            ck.violated("C14-W", st, K.loc(f, calls[0]), "%s passes (base %s, sign %s, buffer/len passed through: %s)" % (name, gb, gs, pass_ok))
        ck.analysed(f)


def shape(f):
    """operator/callee skeleton of a function, abstracting constants and integer widths"""
    out = []
    for b in sorted(f.blocks.values(), key=lambda b: -b.id):
        for e in b.elems:
            if e.k in ("BinaryOperator", "CompoundAssignOperator", "UnaryOperator"):
                out.append(e.get("op"))
            elif e.k == "CallExpr":
                out.append("call:%s" % e.get("callee"))
            elif e.k == "ReturnStmt":
                out.append("ret")
        out.append("|%s" % (b.term_kind or ""))
    return out


def rule_s(ck, prog):
    a, b = prog.fn("UInt32ToStrBaseSign"), prog.fn("UInt64ToStrBaseSign")
    if a is None or b is None:
        return
    st = K.site(b, "sibling-shape", 0)
    sa_, sb_ = shape(a), shape(b)
    if sa_ == sb_:
        ck.holds("C14-S", st, K.loc(b), "same operator/branch skeleton as the 32-bit formatter (%d elements)" % len(sa_))
    else:
        i = next((i for i, (x, y) in enumerate(zip(sa_, sb_)) if x != y), min(len(sa_), len(sb_)))
        ck.violated("C14-S", st, K.loc(b), "32- and 64-bit formatters differ in shape at element %d: %s vs %s"
                    % (i, sa_[i:i + 3], sb_[i:i + 3]))


def run(ck, fb, tier):
    for cfg in fb.configs:
        ck.config = cfg
        prog = fb[cfg]
        rule_b1(ck, prog)
        rule_b2(ck, prog)
        rule_t1_u2(ck, prog)
        rule_w(ck, prog)
        K.narrowing_rule(ck, prog, "C14-N", lambda f_: f_.name in ("UInt32ToStrBaseSign", "UInt64ToStrBaseSign", "SCPI_Int32ToStr", "SCPI_UInt32ToStrBase", "SCPI_Int64ToStr", "SCPI_UInt64ToStrBase", "SCPI_FloatToStr", "SCPI_DoubleToStr", "SCPI_dtostre", "scpi_ecvt", "SCPI_NumberToStr", "SCPI_ParamCopyText"))
        rule_t2(ck, prog)
    ck.trust("spec/bounds.json capacity contracts ((str, len) pairs)")


TECHNIQUE = ("static analysis: bounds engine (linear facts from dominating guards and inductive loop invariants, "
             "Fourier-Motzkin entailment) for every buffer store, constant-table audit of the divisor table, guard audit "
             "of the sign and of every position test, sibling-shape agreement")
LEVEL_TEXT = ("Clause-level static decision: memory safety of the formatters for every value, base and buffer length is "
              "proved per store site; the constant tables, sign condition, position discipline and wrappers are audited "
              "structurally. The canonical-digits clause (value arithmetic of the division loop) is not decided.")
LEVEL_NOTE = "Trusted: clang CFG/constant evaluator, extractor, capacity contract (str, len)."
DESIGN_REF = "DESIGN.md section 5, C14"
