"""C13 — the tokenizer recognises exactly the IEEE 488.2 program-data token syntax."""
from sa import cfg as C
from sa import charset as CS
from sa import paths as P
from . import common as K
from .lexmodel import LexModel, base_of_member
from . import lexpaths as LP

CONFIGS_QUICK = ["A", "G"]
CONFIGS_THOROUGH = ["A", "B", "C", "D", "E", "G"]

EXPLANATION = (
    "Static decision of the non-language clauses of C13 (that each recogniser accepts exactly the "
    "longest 488.2 prefix is regular-language equivalence and is NOT decided). Decided: the "
    "cursor never leaves [start, end] (shared with C01: every read/advance is dominated by a "
    "false end-of-input test with no cursor change in between; restores only to saved cursors or "
    "the end; the block jump is checked before any use). (T1) all-or-nothing: on every enumerated "
    "path on which a recogniser reports UNKNOWN / returns 0 the abstract cursor is back at the "
    "position of entry (at the end of input only on the incomplete-block path). (T2) extent "
    "agreement: on every success path the length is computed from cursor - token start after the "
    "last cursor change (or is the checked block length / the constant 1 after a single skipped "
    "character) and the value returned is that length (plus the 2 prefix characters of "
    "non-decimal numbers, plus the header of a block). (T4) the character classes: the accepted "
    "set of every predicate helper and of the guard of every cursor advance, computed exactly over "
    "all 256 byte values, equals the class 488.2 section 7 (with the leniencies of src/scpi.g) "
    "prescribes. (T3) the unit detector parses data only after header and white space and marks "
    "the unit INVALID exactly when it is not ended by NL, ';' or the end of input.")

RULES = {
    "C13-XC": "(thorough) decision tables of the configuration-independent functions of this property are identical in every build configuration",
    "C13-B1": "(shared with C01-L1) every cursor read is preceded on all paths by a false end-of-input test with no cursor change in between",
    "C13-B2": "(shared with C01-L2) every cursor advance is guarded the same way; the retreat is paired with an advance",
    "C13-B3": "(shared with C01-L3) cursor stores restore a saved cursor of the same call or the end of input",
    "C13-B4": "(shared with C01-L4) the definite-length jump is checked against the end of input before any use",
    "C13-T1": "all-or-nothing: on every path reporting UNKNOWN / 0 the cursor is back at its entry position (end of input only for an incomplete block)",
    "C13-T2": "extent agreement: success paths store len from (cursor - token start) after the last cursor change and return the consumed length",
    "C13-T3": "unit detector: data only after header+white space; INVALID exactly when not ended by NL, ';' or end of input",
    "C13-T5": "sub-token order of the decimal numeric recognisers is that of 488.2 7.7.2.2: [sign] digits ['.' digits] [[ws] E [ws] [sign] digits]",
    "C13-T7": "program data that breaks off after a comma (`1,` / `'a',`) is distinguishable from absent program data: the unit must not be dispatched as if it had no parameters",
    "C13-T6": "parser level: scpiParser_parseProgramData / parseAllProgramData report exactly the number of bytes their recognisers consumed (white space included), on every path",
    "C13-T8": "after a sub-recogniser that can fail with the cursor moved reported failure, the caller restores the cursor on every path before it measures the token",
    "C13-T10": "scpiParser_parseProgramData leaves the cursor behind the white space that follows the data: on every path the last recogniser it ran on the cursor is the white-space recogniser (the comma / terminator is expected right there)",
    "C13-T11": "maximal munch: no loop of a recogniser that advances the cursor is left because a fixed number of bytes was consumed (no exit condition compares a consumed-byte count with a non-zero constant): a token ends at the end of input or at a byte outside its class",
    "C13-T12": "SCPI_Parse tokenises the line as given: the (data, len) pair it received reaches the unit detector unchanged, the only stores to it are the unit loop's own advance by the detector's result (no trimming of bytes the caller counted)",
    "C13-T9": "compound header shape (488.2 7.6.1.2): the decision table of the header skipper over the outcomes of its colon and mnemonic helpers is [:] mnemonic (: mnemonic)*, a colon that no mnemonic follows is an INCOMPLETE header wherever it stands, and the helpers are consulted in that order",
    "C13-T4": "character classes of predicate helpers and of every advance guard equal the 488.2 classes (computed over all 256 byte values)",
}


def rule_t1_t2(ck, prog, S, model):
    unknown = prog.enumconst.get("SCPI_TOKEN_UNKNOWN")
    recs = LP.recognisers(prog)
    if len(recs) < 14:
        ck.anchor_lost("C13-T1", "only %d token recognisers found" % len(recs))
        return
    rec_names = {r.name for r in recs}
    for f in recs:
        ck.analysed(f)
        # a recogniser that is nothing but `return other_recogniser(state, token, ...)` is decided where the work is done
        body_stmts = [n for n in (f.body.ch if f.body is not None else [])]
        if len(body_stmts) == 1 and body_stmts[0].k == "ReturnStmt" and body_stmts[0].ch:
            e0 = body_stmts[0].child(0).strip_all_casts()
            if e0.k == "CallExpr" and e0.get("callee") in rec_names and e0.get("callee") != f.name:
                a0 = [x.strip_all_casts().get("path") for x in C.call_args(e0)]
                if a0[:2] == [f.params[0]["name"], f.params[1]["name"]]:
                    ck.holds("C13-T1", K.site(f, "failure-restores-cursor", 0), K.loc(f), "delegates to %s with the same state and token" % e0["callee"], nontrivial=False)
                    ck.holds("C13-T2", K.site(f, "extent", 0), K.loc(f), "delegates to %s with the same state and token" % e0["callee"], nontrivial=False)
                    continue
        try:
            sims = LP.simulate(model, f)
        except P.TooManyPaths:
            ck.undecided("C13-T1", K.site(f, "paths", 0), K.loc(f), "too many paths")
            continue
        bad1, bad2 = [], []
        nfail = nsucc = nskip = 0
        tok = f.params[1]["name"]
        for sm in sims:
            ps = sm.ps
            rv = ps.ret
            if sm.type_stored:
                failing = sm.type_val == unknown
                if not failing and rv is not None and rv.kind == "const" and rv.v == 0:
                    nskip += 1      # type says success, value says 0: `len > 0 ? ... : 0` with len > 0 (value-dependent)
                    continue
            else:
                failing = rv is not None and rv.kind == "const" and rv.v == 0
            if failing:
                nfail += 1
                ok = sm.rel == "start" and not sm.wild
                if not ok and sm.rel == "end" and not sm.wild and f.name == "scpiLex_ArbitraryBlockProgramData":
                    ok = True   # documented leniency: an incomplete block swallows the rest
                if not ok:
                    bad1.append(sm)
            else:
                nsucc += 1
                lf = sm.len_from
                okl = False
                why = "length stored from %s" % (lf,)
                if lf is None:
                    why = "token length is not stored on a success path"
                elif lf[0] == "diff":
                    # pos - ptr computed at the current cursor version, ptr a saved cursor of this call
                    if lf[1] == sm.ver and lf[2][0] in ("cur", "adjusted") and not lf[3]:
                        okl = True
                    else:
                        why = "length computed before the last cursor change or against a foreign pointer"
                elif lf[0] == "const" and lf[1] == 1 and (len(sm.advancers), getattr(sm, "steps1", 0)) in ((1, 0), (0, 1)):
                    okl = True      # exactly one byte was consumed: through the one-character skipper or by one own step
                elif lf[0] == "expr":
                    # block: len = declared length after the in-range check; len += ws + suffix
                    if f.name == "scpiLex_ArbitraryBlockProgramData" and not sm.wild:
                        okl = True
                    else:
                        why = "length is `%s`" % lf[1]
                if not okl:
                    bad2.append((sm, why))
                    continue
                # returned value
                rn = ps.ret_node
                rexp = rn.child(0).strip_all_casts() if rn is not None and rn.ch else None
                okr = False
                if rexp is not None:
                    src = rexp.src.replace(" ", "")
                    if rexp.get("path") == tok + "->len":
                        okr = sm.ptr_adjust == 0
                    elif rexp.k == "ConditionalOperator":
                        t = rexp.child(1).strip_all_casts()
                        tsrc = t.src.replace(" ", "")
                        if tsrc == tok + "->len" and sm.ptr_adjust == 0:
                            okr = True
                        elif tsrc in (tok + "->len+%d" % sm.ptr_adjust,) and sm.ptr_adjust:
                            okr = True
                    elif rexp.k == "BinaryOperator" and rexp.get("op") == "+" and f.name == "scpiLex_ArbitraryBlockProgramData":
                        okr = src.startswith(tok + "->len+(" + tok + "->ptr-")
                if not okr:
                    bad2.append((sm, "returned value `%s` is not the consumed length (token start adjusted by %d)"
                                 % (rexp.src if rexp is not None else None, sm.ptr_adjust)))
        st = K.site(f, "all-or-nothing", 0)
        if bad1:
            sm = bad1[0]
            ck.violated("C13-T1", st, K.loc(f, sm.ps.ret_node),
                        "%s can report UNKNOWN / 0 while the cursor is left %s: input is consumed although no token was "
                        "recognised" % (f.name, "past the end of input" if sm.wild else ("at the end of input" if sm.rel == "end" else "advanced")),
                        {"path": sm.ps.describe()[-6:], "failing_paths": len(bad1)})
        elif nfail == 0:
            ck.undecided("C13-T1", st, K.loc(f), "no failing path found")
        else:
            ck.holds("C13-T1", st, K.loc(f), "%d failing paths, cursor restored on each" % nfail)
        st = K.site(f, "extent", 0)
        if bad2:
            sm, why = bad2[0]
            ck.violated("C13-T2", st, K.loc(f, sm.ps.ret_node), "%s: %s" % (f.name, why),
                        {"path": sm.ps.describe()[-6:], "paths": len(bad2)})
        elif nsucc == 0:
            ck.undecided("C13-T2", st, K.loc(f), "no success path found")
        else:
            ck.holds("C13-T2", st, K.loc(f), "%d success paths: length = cursor - start after the last move; returned" % nsucc)
    ck.floor("C13-T1", 14)
    ck.floor("C13-T2", 14)


def char_atoms_set(prog, S, f, node, quote=None, model=None):
    """byte set for which the advance at `node` is reachable: for every byte value b the CFG is
    searched from each point where the current character is fresh (function entry, just after a
    cursor change) to the advance, following a branch edge only if its condition - when it
    depends on nothing but the current character - evaluates accordingly for b (conditions that
    depend on anything else are followed both ways) and never crossing a cursor change."""
    pg = S.pg(f)
    changes = set()
    for s_ in (model.sites.get(f.name, []) if model else []):
        if s_["kind"] in ("advance", "retreat", "jump", "restore", "other-store"):
            changes.add(s_["node"].id)
    for c in f.calls():
        if model and model.writes_cursor(c):
            changes.add(c.id)
    fresh = [pg.entry]
    for p_, es in pg.out.items():
        for e in es:
            if e.kind == "elem" and e.node.id in changes:
                fresh.append(e.dst)
    target = pg.before(node)
    env0 = {}
    if quote is not None:
        for p in f.params:
            if p["type"].get("ct") == "char":
                env0[p["name"]] = quote
    depends = False
    cache = {}

    def edge_ok(e, b):
        nonlocal depends
        if e.kind == "elem":
            return e.node.id not in changes or e.node is node
        lab = e.label
        if lab[0] in ("case", "default", "switch-exit"):
            sw = e.block.cond
            if sw is None:
                return True
            keyv = ("sw", sw.id, b)
            if keyv not in cache:
                env = dict(env0)
                env["$c"] = CS.byte_as_char(b)
                try:
                    reads = any((x.k == "ArraySubscriptExpr" and (x.get("path") or "").endswith("pos[0]")) or
                                (x.k == "UnaryOperator" and x.get("op") == "*" and (x.child(0).strip().get("path") or "").endswith("pos"))
                                for x in sw.walk()) or sw.k in ("ArraySubscriptExpr", "UnaryOperator")
                    cache[keyv] = CS.ceval(sw, env, prog) if reads else None
                except CS.CannotEvaluate:
                    cache[keyv] = None
            v = cache[keyv]
            if v is None:
                return True
            depends = True
            ranges = []
            for sj, t_ in enumerate(e.block.succs):
                l2 = f.edge_label(e.block, sj)
                if l2[0] == "case":
                    ranges.append((l2[1], l2[2]))
            if lab[0] == "case":
                return lab[1] <= v <= lab[2]
            return not any(lo <= v <= hi for lo, hi in ranges)
        if lab[0] not in ("true", "false") or lab[1] is None:
            return True
        key = (lab[1].id, b)
        if key not in cache:
            env = dict(env0)
            env["$c"] = CS.byte_as_char(b)
            try:
                reads = any((x.k == "ArraySubscriptExpr" and (x.get("path") or "").endswith("pos[0]")) or
                            (x.k == "CallExpr" and x.get("callee") == "ischr") for x in lab[1].walk())
                cache[key] = bool(CS.ceval(lab[1], env, prog)) if reads else None
            except CS.CannotEvaluate:
                cache[key] = None
        v = cache[key]
        if v is None:
            return True
        depends = True
        return v == (lab[0] == "true")

    out = set()
    for b in range(256):
        reach = pg.reachable(fresh, blocked_edge=lambda e, b=b: (not edge_ok(e, b)) or
                             (e.kind == "elem" and e.node.id in changes))
        if target in reach:
            out.add(b)
    return out if depends else None


def nondecimal_letter_classes(prog, S, model):
    """{token class: (bytes that select it after '#', digit recogniser called)} decided by byte-wise CFG
    reachability in scpiLex_NondecimalNumericData - independent of if-chain / switch / predicate helpers"""
    f = prog.fn("scpiLex_NondecimalNumericData")
    if f is None:
        return None
    # by evaluation over the complete byte domain: the class assigned to "#<b>0" for every byte b, and for each class the
    # bytes d for which "#<letter><d>" is consumed whole - whatever dispatches (if-chain, switch, table of function pointers)
    from sa import interp as I
    unknown = prog.enumconst.get("SCPI_TOKEN_UNKNOWN")
    try:
        out = {}
        for b in range(256):
            r, tok, used = I.lex_on(prog, f.name, bytes([ord("#"), b, ord("0")]))
            if r == 3 and tok.get("type") not in (None, unknown):
                out.setdefault(tok["type"], [set(), None, set()])[0].add(b)
        for cls, ent in out.items():
            letter = sorted(ent[0])[0]
            for d in range(256):
                r, tok, used = I.lex_on(prog, f.name, bytes([ord("#"), letter, d]))
                if r == 3:
                    ent[2].add(d)
        if out:
            return {cls: (ent[0], None, ent[2]) for cls, ent in out.items()}
    except I.Stuck:
        pass
    pg = S.pg(f)
    adv = K.ordinal_sites([s_["node"] for s_ in model.sites.get(f.name, []) if s_["kind"] == "advance"])
    out = {}
    for node in adv:
        try:
            got = char_atoms_set(prog, S, f, node, None, model)
        except CS.CannotEvaluate:
            got = None
        others = [a for a in adv if a is not node]
        reach = pg.reachable([pg.after(node)], blocked_edge=lambda e: e.kind == "elem" and e.node in others)
        cls, rec = None, None
        for n, t in C.stores(f):
            if (t.get("path") or "").endswith("->type") and n.get("op") == "=" and pg.before(n) in reach:
                c = C.const_of(n.child(1))
                unknown = prog.enumconst.get("SCPI_TOKEN_UNKNOWN")
                if c is not None and c != unknown and cls is None:
                    cls = c
        for c in f.calls():
            if pg.before(c) in reach and model.writes_cursor(c) and rec is None and (c.get("callee") or "").startswith("skip") and c.get("callee") != "skipChr":
                rec = c.get("callee")
        if cls is not None:
            out[cls] = (got, rec)
    return out


def show(s):
    s = sorted(s)
    out = []
    i = 0
    while i < len(s):
        j = i
        while j + 1 < len(s) and s[j + 1] == s[j] + 1:
            j += 1
        def ch(x):
            return repr(chr(x)) if 32 < x < 127 else "0x%02x" % x
        out.append(ch(s[i]) if i == j else "%s-%s" % (ch(s[i]), ch(s[j])))
        i = j + 1
    return " ".join(out)


def rule_t8(ck, prog, S, model):
    """A sub-recogniser that can fail AFTER having moved the cursor (it ate the `E` and then found no digits) leaves the
    cursor inside what is not part of the token.  On every path on which such a helper reported failure the caller puts
    the cursor back to a position saved before the attempt - unconditionally - before it measures the token or returns."""
    n = 0
    for f in sorted(model.fns, key=lambda f_: (f_.relfile, f_.line)):
        if not f.relfile.endswith("lexer.c") or not f.params or "_lex_state_t" not in f.params[0]["type"]["ct"]:
            continue
        base = f.params[0]["name"]
        risky = [c for c in f.calls() if c.get("callee") and c["callee"] != f.name and model.writes_cursor(c) and
                 prog.fn(c["callee"]) is not None and not LP.zero_unmoved(model, c["callee"]) and
                 prog.fn(c["callee"]).ret.get("tk") == "int"]
        if not risky:
            continue
        try:
            sums = P.summarize(f, max_visits=2)
        except P.TooManyPaths:
            continue
        for k, c in enumerate(K.ordinal_sites(risky)):
            st = K.site(f, "restore-after-failed(%s)" % c["callee"], k)
            bad = None
            seen = False
            for ps in sums:
                idx = None
                for i, ev in enumerate(ps.events):
                    if ev[0] == "branch" and ev[1] is c and ev[2] is False:
                        idx = i
                if idx is None:
                    continue
                seen = True
                restored = False
                for ev in ps.events[idx + 1:]:
                    if ev[0] == "store":
                        t = C.store_target(ev[1])
                        if t is not None and t.k == "MemberExpr":
                            bm = LP.base_of_member(t)
                            if bm and bm[0] == base and bm[1] == "pos" and ev[1].get("op") == "=":
                                restored = True
                # the whole recogniser failing (returns 0 / UNKNOWN) is T1's business: there the cursor goes back to the start
                if not restored:
                    bad = ps
                    break
            if not seen:
                continue
            n += 1
            if bad is not None:
                ck.violated("C13-T8", st, K.loc(f, c),
                            "%s can return 0 after it moved the cursor; on a path on which it did, %s goes on without putting the cursor "
                            "back: the bytes the failed attempt consumed become part of the token" % (c["callee"], f.name),
                            {"path": bad.describe()[-6:]})
            else:
                ck.holds("C13-T8", st, K.loc(f, c), "cursor restored on every path on which %s failed" % c["callee"])
    if n == 0:
        ck.anchor_lost("C13-T8", "no caller of a sub-recogniser that can fail after moving the cursor")


def rule_t4(ck, prog, S, model, only=None):
    spec = K.load_spec("char_classes.json")
    for name, expr in spec["predicates"].items():
        if only is not None and name not in only:
            continue
        f = prog.fn(name)
        if f is None:
            continue      # helper not present (inlined / replaced): its uses are covered by the advance-guard sets
        ck.analysed(f)
        st = K.site(f, "class", 0)
        try:
            got = CS.predicate_set(f, prog, signed_char=True)
        except CS.CannotEvaluate as e:
            ck.undecided("C13-T4", st, K.loc(f), "cannot evaluate: %s" % e)
            continue
        want = CS.parse_class(expr)
        if got == want:
            ck.holds("C13-T4", st, K.loc(f), "%s accepts exactly {%s}" % (name, show(got)))
        else:
            ck.violated("C13-T4", st, K.loc(f), "%s accepts {%s}; 488.2 prescribes {%s} (extra {%s}, missing {%s})"
                        % (name, show(got), show(want), show(got - want), show(want - got)))
    listed = set()
    universe = []
    for name, exprs in spec["advance_guards"].items():
        if name.startswith("_"):
            continue
        for ex in exprs:
            for q in ((34, 39) if "Q" in ex else (None,)):
                universe.append(CS.parse_class(ex, q))
    for name, exprs in spec["advance_guards"].items():
        if name.startswith("_") or (only is not None and name not in only):
            continue
        f = prog.fn(name)
        if f is None:
            continue      # helper inlined or replaced: the generic pass below judges whoever took over its advances
        listed.add(name)
        ck.analysed(f)
        adv = K.ordinal_sites([s["node"] for s in model.sites.get(f.name, []) if s["kind"] == "advance"])
        quotes = [34, 39] if any("Q" in e_ for e_ in exprs) else [None]
        if len(adv) != len(exprs):
            # another arrangement of the same recogniser (look-ahead instead of advance-and-undo, merged branches):
            # the classes over which it advances must still be exactly the listed ones, as sets
            same = True
            detail = None
            for q in quotes:
                try:
                    gots_ = {frozenset(char_atoms_set(prog, S, f, node, q, model) or ()) for node in adv}
                except CS.CannotEvaluate as e:
                    same, detail = None, str(e)
                    break
                wants_ = {frozenset(CS.parse_class(e_, q)) for e_ in exprs}
                # the one-character skipper called with a constant advances over exactly that character
                for c_ in f.calls("skipChr"):
                    cv_ = C.const_of(K.arg(c_, 1)) if K.arg(c_, 1) is not None else None
                    if cv_ is not None and gots_ is not None:
                        gots_ = set(gots_) | {frozenset({cv_ & 0xff})}
                if gots_ != wants_ and f.name == "scpiLex_NondecimalNumericData":
                    # a data-driven dispatch (table of letters and digit recognisers): the letter sets per token class
                    # by evaluation over all bytes
                    lc_ = nondecimal_letter_classes(prog, S, model) or {}
                    ev_ = {frozenset(v_[0]) for v_ in lc_.values() if len(v_) > 2 and v_[0]}
                    if ev_:
                        gots_ = ev_
                if gots_ != wants_ and not adv:
                    # no advance of its own: the work may be handed to helpers that are listed themselves - the classes they
                    # are listed with must add up to this recogniser's classes
                    sub = set()
                    for c_ in f.calls():
                        ex2 = spec["advance_guards"].get(c_.get("callee") or "")
                        if ex2 and model.writes_cursor(c_):
                            sub |= {frozenset(CS.parse_class(e_, q)) for e_ in ex2}
                    if sub:
                        gots_ = sub
                if gots_ != wants_:
                    same = False
                    detail = "advances over %s, listed %s" % (sorted(show(set(x)) for x in gots_), sorted(show(set(x)) for x in wants_))
            stx = K.site(f, "advances", 0)
            if same:
                ck.holds("C13-T4", stx, K.loc(f), "%d advances over exactly the %d listed classes" % (len(adv), len({frozenset(CS.parse_class(e_, quotes[0])) for e_ in exprs})))
            elif same is None:
                ck.undecided("C13-T4", stx, K.loc(f), "cannot evaluate guards: %s" % detail)
            else:
                ck.violated("C13-T4", stx, K.loc(f), "%s has %d cursor advances (class table: %d) and they do not cover the same classes: %s"
                            % (name, len(adv), len(exprs), detail))
            continue
        okall = True
        for q in quotes:
            gots = []
            for node in adv:
                try:
                    gots.append(char_atoms_set(prog, S, f, node, q, model))
                except CS.CannotEvaluate as e:
                    gots.append(("err", str(e)))
            wants = [CS.parse_class(e_, q) for e_ in exprs]
            # compare as multisets: the order of equivalent branches is not part of the grammar
            rem = list(wants)
            for i, (node, got) in enumerate(zip(adv, gots)):
                st = K.site(f, "advance-guard", i)
                if isinstance(got, tuple):
                    ck.undecided("C13-T4", st, K.loc(f, node), "cannot evaluate guard: %s" % got[1])
                    okall = False
                    continue
                if got is None:
                    ck.violated("C13-T4", st, K.loc(f, node), "cursor advance is not guarded by a test of the current character")
                    okall = False
                    continue
                if got in rem:
                    rem.remove(got)
                    if q == quotes[-1]:
                        ck.holds("C13-T4", st, K.loc(f, node), "advances exactly over {%s}" % show(got))
                else:
                    near = min(wants, key=lambda w: len(w ^ got))
                    ck.violated("C13-T4", st, K.loc(f, node),
                                "%s advances over {%s}; 488.2 prescribes {%s} (extra {%s}, missing {%s})"
                                % (name, show(got), show(near), show(got - near), show(near - got)))
                    okall = False
            if not okall:
                break
    # single-character token recognisers: by evaluation over the complete byte domain (however they are written: through the
    # one-character skipper, by a step of their own, or by delegating to a shared helper)
    from sa import interp as I_
    for name, expr in spec.get("single_character_tokens", {}).items():
        if name.startswith("_") or (only is not None and name not in only):
            continue
        f = prog.fn(name)
        if f is None:
            continue
        listed.add(name)
        ck.analysed(f)
        want = CS.parse_class(expr)
        stx = K.site(f, "single-character", 0)
        bad = None
        try:
            for b in range(256):
                seconds = range(256) if b in want else (120,)
                for b2 in seconds:
                    r, tok, used = I_.lex_on(prog, name, bytes([b, b2]))
                    exp = 1 if b in want else 0
                    if (r, used) != (exp, exp) and bad is None:
                        bad = (b, b2, r, used, exp)
                r, tok, used = I_.lex_on(prog, name, bytes([b]))
                if (r, used) != ((1, 1) if b in want else (0, 0)) and bad is None:
                    bad = (b, None, r, used, 1 if b in want else 0)
        except I_.Stuck as e:
            ck.undecided("C13-T4", stx, K.loc(f), "cannot evaluate %s: %s" % (name, e))
            continue
        if bad:
            ck.violated("C13-T4", stx, K.loc(f), "%s on input %s consumes %s byte(s) and returns %s; the token is exactly the one character {%s}: "
                        "%d byte(s)" % (name, [bad[0]] + ([bad[1]] if bad[1] is not None else []), bad[3], bad[2], show(want), bad[4]))
        else:
            ck.holds("C13-T4", stx, K.loc(f), "consumes exactly one {%s} and nothing else (all first bytes, all second bytes behind it)" % show(want))
    if only is not None:
        return
    # every other lexer function that advances under a character test must use one of the known classes
    # (or a single character given as parameter)
    for f in sorted(prog.functions.values(), key=lambda f_: f_.line):
        if not f.relfile.endswith("lexer.c") or f.name in listed:
            continue
        adv = K.ordinal_sites([s["node"] for s in model.sites.get(f.name, []) if s["kind"] == "advance"])
        has_char_param = any(p_["type"].get("ct") == "char" for p_ in f.params)
        for i, node in enumerate(adv):
            st = K.site(f, "advance-guard", i)
            try:
                got = char_atoms_set(prog, S, f, node, 120 if has_char_param else None, model)
            except CS.CannotEvaluate:
                got = None
            if got is None:
                continue      # not guarded by a character test here (e.g. guarded through a helper's result)
            if has_char_param and got == {120}:
                ck.holds("C13-T4", st, K.loc(f, node), "advances over exactly the character given as parameter")
            elif got in universe or len(got) <= 2:
                ck.holds("C13-T4", st, K.loc(f, node), "advances over {%s}" % show(got), nontrivial=len(got) > 2)
            else:
                ck.undecided("C13-T4", st, K.loc(f, node), "%s advances over {%s}, which is none of the 488.2 classes in spec/char_classes.json"
                             % (f.name, show(got)))
    ck.floor("C13-T4", 25)


def rule_t3(ck, prog, S):
    got = K.need(ck, prog, "C13-T3", "scpiParser_detectProgramMessageUnit")
    if not got:
        return
    f = got[0]
    inv = prog.enumconst.get("SCPI_TOKEN_INVALID")
    sums = P.summarize(f)
    probs = []
    n_inv = 0
    for ps in sums:
        calls = [c.get("callee") for c in ps.calls]
        d = {}
        for a, pol in ps.facts:
            if isinstance(pol, tuple):
                continue
            s = a.strip_all_casts()
            if s.k == "BinaryOperator" and s.child(0).strip_all_casts().k == "CallExpr":
                d[s.child(0).strip_all_casts().get("callee") + s["op"]] = pol
            if s.k == "CallExpr":
                d[s.get("callee")] = pol
        hdr = d.get("scpiLex_ProgramHeader>=")
        ws = d.get("scpiLex_WhiteSpace>")
        if "scpiParser_parseAllProgramData" in calls and not (hdr is True and ws is True):
            probs.append("program data is parsed without a preceding header and white space")
        if hdr is True and ws is True and "scpiParser_parseAllProgramData" not in calls:
            probs.append("header and white space are followed by no data parsing")
        # INVALID marker
        set_inv = any(e[0] == "store" and (C.store_target(e[1]).get("path") or "").endswith("programHeader.type")
                      and C.const_of(e[1].child(1)) == inv for e in ps.events)
        eos = d.get("scpiLex_IsEos")
        res0 = None
        for a, pol in ps.facts:
            if not isinstance(pol, tuple) and a.k == "BinaryOperator" and a.get("op") == "==" and \
                    a.child(0).strip_all_casts().get("path") == "result" and C.const_of(a.child(1)) == 0:
                res0 = pol   # the last test of result == 0 (after NL and ';' were tried)
        if set_inv:
            n_inv += 1
            if not (eos is False and "scpiLex_NewLine" in calls and "scpiLex_Semicolon" in calls):
                probs.append("INVALID is set on a path that did not try NL and ';' or is at the end of input")
        else:
            # not invalid: must be at eos or a terminator was consumed
            if eos is False and res0 is True:
                probs.append("a unit that is followed by neither NL, ';' nor the end of input is not marked INVALID")
    st = K.site(f, "unit-shape", 0)
    if probs:
        ck.violated("C13-T3", st, K.loc(f), sorted(set(probs))[0], {"all": sorted(set(probs))})
    elif n_inv == 0:
        ck.anchor_lost("C13-T3", "no path marks the unit INVALID")
    else:
        ck.holds("C13-T3", st, K.loc(f), "%d paths: data only after header+WS; INVALID exactly when no terminator follows" % len(sums))
    ck.analysed(f)


def rule_t5(ck, prog):
    from .lexmodel import base_of_member
    spec = K.load_spec("grammar_488_2.json")
    steps = set(spec["steps"])
    for fname, allowed in spec["sequences"].items():
        f = prog.fn(fname)
        if f is None:
            ck.anchor_lost("C13-T5", fname)
            continue
        ck.analysed(f)
        st = K.site(f, "sub-token-order", 0)
        allowed_t = {tuple(a) for a in allowed}
        seen = set()
        foreign = set()
        for ps in P.summarize(f):
            seq = []
            for e in ps.events:
                if e[0] == "call":
                    name = e[1].get("callee")
                    if name in steps:
                        a = C.call_args(e[1])
                        if name == "skipChr" and len(a) > 1 and C.const_of(a[1]) is not None:
                            name = "skipChr:%s" % chr(C.const_of(a[1]) & 0xFF)
                        seq.append(name)
                    elif name and name.startswith(("skip", "scpiLex_")) and name not in ("scpiLex_IsEos",):
                        foreign.add(name)
                elif e[0] == "store" and getattr(e[1], "fn", f) is f:      # the function's own advances, not those inside its helpers
                    t = C.store_target(e[1])
                    bm = base_of_member(t) if t is not None and t.k == "MemberExpr" else None
                    if bm and bm[1] == "pos" and (e[1].get("op") in ("++", "+=")):
                        seq.append("advance")
            seen.add(tuple(seq))
        if foreign:
            ck.undecided("C13-T5", st, K.loc(f), "%s uses recognisers the grammar table does not know: %s" % (fname, sorted(foreign)))
        elif not seen:
            ck.anchor_lost("C13-T5", "no paths through %s" % fname)
        elif seen - allowed_t:
            w = sorted(seen - allowed_t)[0]
            ck.violated("C13-T5", st, K.loc(f),
                        "%s can consume its parts in the order %s; 488.2 7.7.2.2 allows only %s (for example white space is "
                        "allowed between 'E' and the sign, not between the sign and the digits)" % (fname, list(w), sorted(allowed_t)))
        elif allowed_t - seen:
            ck.violated("C13-T5", st, K.loc(f), "%s never consumes %s: that form of the number is no longer recognised"
                        % (fname, sorted(allowed_t - seen)[0]))
        else:
            ck.holds("C13-T5", st, K.loc(f), "paths consume exactly %s" % sorted(allowed_t))


def rule_t5_detector(ck, prog, S):
    """what the unit detector may consume in front of the header: white space only (a line terminator in front of the header
    would make the unit boundaries depend on how CR LF is split over input calls)"""
    f = prog.fn("scpiParser_detectProgramMessageUnit")
    if f is None:
        return
    pg = S.pg(f)
    hdr = list(f.calls("scpiLex_ProgramHeader"))
    st = K.site(f, "before-the-header", 0)
    if len(hdr) != 1:
        ck.anchor_lost("C13-T5", "scpiLex_ProgramHeader call in the unit detector")
        return
    back = set()
    reach_to = pg.reachable([pg.entry], blocked_edge=lambda e: e.kind == "elem" and e.node is hdr[0])
    before = [c for c in f.calls() if (c.get("callee") or "").startswith(("scpiLex_", "skip")) and c is not hdr[0] and pg.before(c) in reach_to]
    names = sorted({c["callee"] for c in before})
    adv = [n for n, t in C.stores(f) if (t.get("path") or "").endswith(".pos") and n.get("op") in ("++", "+=") and pg.before(n) in reach_to]
    if names == ["scpiLex_WhiteSpace"] and len(before) == 1 and not adv:
        ck.holds("C13-T5", st, K.loc(f, before[0]), "only white space is consumed in front of the program header")
    else:
        ck.violated("C13-T5", st, K.loc(f, hdr[0]),
                    "in front of the program header the unit detector consumes %s%s; IEEE 488.2 allows white space only - a leading line "
                    "terminator must end an (empty) message of its own" % (names, " and advances the cursor itself" if adv else ""))


def rule_t7(ck, prog):
    f = prog.fn("scpiParser_parseAllProgramData")
    if f is None:
        ck.anchor_lost("C13-T7", "scpiParser_parseAllProgramData")
        return
    ck.analysed(f)
    st = K.site(f, "malformed-data-distinguishable", 0)
    unk = prog.enumconst.get("SCPI_TOKEN_UNKNOWN")
    sig = {"none": set(), "after-comma": set()}
    for ps in P.summarize(f, max_visits=3):
        items_ok = 0
        failed = False
        for a, pol in ps.facts:
            if isinstance(pol, tuple) or a.k != "BinaryOperator" or a.get("op") not in ("!=", "=="):
                continue
            if (a.child(0).strip_all_casts().get("path") or "").endswith(".type") and C.const_of(a.child(1)) == unk:
                is_unknown = pol if a["op"] == "==" else not pol
                if is_unknown:
                    failed = True
                    break
                items_ok += 1
        if not failed:
            continue
        out = []
        tokp = f.params[1]["name"]
        for e in ps.events:
            if e[0] == "store":
                t = C.store_target(e[1])
                p_ = t.get("path") or ""
                if p_.startswith(tokp + "->") or p_.startswith("*"):
                    out.append((p_, C.const_of(e[1].child(1)) if e[1].get("op") == "=" else e[1].get("op")))
        final = {}
        for p_, v in out:
            final[p_] = v
        pc = ps.env.get("paramCount")
        key = (tuple(sorted((k_, str(v)) for k_, v in final.items() if k_.endswith(("->type", "->len")))),
               pc.v if pc is not None and pc.kind == "const" else None)
        sig["none" if items_ok == 0 else "after-comma"].add(key)
    if not sig["none"] or not sig["after-comma"]:
        ck.anchor_lost("C13-T7", "failing paths of parseAllProgramData (no data: %d, after a comma: %d)" % (len(sig["none"]), len(sig["after-comma"])))
    elif sig["none"] & sig["after-comma"]:
        ck.violated("C13-T7", st, K.loc(f),
                    "scpiParser_parseAllProgramData reports data that breaks off after a comma exactly like absent data (type UNKNOWN, "
                    "length 0, -1 parameters): `NONE 1,` runs the handler without parameters and without any error, `ONE 1,` answers "
                    "-109 Missing parameter although one was sent")
    else:
        ck.holds("C13-T7", st, K.loc(f), "a failure after a comma is reported differently from absent program data")


def rule_t6(ck, prog):
    """conservation: bytes consumed by the recognisers a parser function calls == the length it reports"""
    from sa import bounds as B
    from sa.linear import Lin
    from . import boundsrules as BR
    for fname in ("scpiParser_parseProgramData",):
        f = prog.fn(fname)
        if f is None:
            ck.anchor_lost("C13-T6", fname)
            continue
        ck.analysed(f)
        an = B.Analysis(prog, f, {}, BR.spec()["contracts"], loads=False, max_paths=20000)
        orig = an.do_elem

        def hook(st, n, orig=orig, an=an):
            if n.k == "ReturnStmt" and n.ch:
                v = an.value(st, n.child(0))
                cons = st.env.get("$consumed", Lin.const(0))
                what = "the value returned equals the bytes consumed by the recognisers called on this path"
                if v is None:
                    site = an.sites.setdefault(("ret", n.id), B.Site(n, "extent", what))
                    site.results.append((False, False, True, "returned value not expressible", None, None))
                else:
                    for g in (v - cons, cons - v):
                        an.oblige_fact(st, n, "extent", g, what, key=("ret", n.id))
            return orig(st, n)
        an.do_elem = hook
        try:
            sites = an.run()
        except RecursionError:
            ck.undecided("C13-T6", K.site(f, "extent", 0), K.loc(f), "path explosion")
            continue
        k = 0
        for s_ in sites.values():
            if s_.kind != "extent":
                continue
            v, r = s_.verdict()
            st = K.site(f, "reported-length", k)
            k += 1
            if v == "HOLDS":
                ck.holds("C13-T6", st, K.loc(f, s_.node), "returned length == consumed bytes on all %d paths" % len(s_.results))
            elif v == "VIOLATED":
                ck.violated("C13-T6", st, K.loc(f, s_.node),
                            "%s can report fewer/more bytes than its recognisers consumed: the program-data length handed to the "
                            "handler's parameter readers is then short, and the last items of `1 , 2 ,3` are lost; witness %s" % (fname, r[5]),
                            {"facts": r[4]})
            else:
                ck.undecided("C13-T6", st, K.loc(f, s_.node), "%s: %s" % (s_.what, r[3]), {"facts": r[4]})
        if k == 0:
            ck.anchor_lost("C13-T6", "return of %s" % fname)


def rule_t11(ck, prog, model):
    n = 0
    for f in sorted(prog.functions.values(), key=lambda f_: (f_.relfile, f_.line)):
        if not f.relfile.endswith("lexer.c") or not f.params or "_lex_state_t" not in (f.params[0]["type"].get("ct") or ""):
            continue
        base = f.params[0]["name"]
        adv_nodes = {s_["node"].id for s_ in model.sites.get(f.name, []) if s_["kind"] == "advance"}
        for head, body in C.loops(f):
            in_loop = [e for bid in body for e in f.blocks[bid].elems]
            if not any(e.id in adv_nodes for e in in_loop) and \
                    not any(e.k == "CallExpr" and model.writes_cursor(e) for e in in_loop):
                continue
            counters = set()
            for e in in_loop:
                t = C.store_target(e)
                if t is not None and t.k == "DeclRefExpr" and (e.k == "UnaryOperator" or e.get("op") in ("+=", "-=")):
                    counters.add(t.get("path"))
            st = K.site(f, "loop-exit", n)
            n += 1
            bad = None
            for bid in body:
                b = f.blocks[bid]
                if b.cond is None or not any(s_ is not None and s_.id not in body for s_ in b.succs):
                    continue
                for x in b.cond.walk():
                    if x.k != "BinaryOperator" or x.get("op") not in ("<", "<=", ">", ">=", "==", "!="):
                        continue
                    for side, other in ((x.child(0), x.child(1)), (x.child(1), x.child(0))):
                        cv = C.const_of(other)
                        if cv is None or cv == 0:
                            continue
                        sd = side.strip_all_casts()
                        while sd.k == "ParenExpr":
                            sd = sd.child(0).strip_all_casts()
                        consumed = (sd.k == "BinaryOperator" and sd.get("op") == "-" and
                                    any(y.k == "MemberExpr" and y.get("member") == "pos" for y in sd.walk())) or \
                                   (sd.k == "DeclRefExpr" and sd.get("path") in counters and sd.get("tk") == "int")
                        if consumed and bad is None:
                            bad = (x, cv)
            if bad:
                ck.violated("C13-T11", st, K.loc(f, bad[0]),
                            "the loop in %s that advances the cursor is left under `%s`: after %s bytes the token is cut although the next "
                            "byte still belongs to it; the rest is lexed as something else (a keyword of 13 letters becomes a header "
                            "plus an invalid character)" % (f.name, bad[0].src, bad[1]))
            else:
                ck.holds("C13-T11", st, K.loc(f, head.cond) if head.cond is not None else K.loc(f),
                         "left only at the end of input or at a byte outside the class")
    if n < 8:
        ck.anchor_lost("C13-T11", "only %d cursor-advancing loops found in lexer.c" % n)


def rule_t12(ck, prog):
    f = prog.fn("SCPI_Parse")
    if f is None or len(f.params) < 3:
        ck.anchor_lost("C13-T12", "SCPI_Parse")
        return
    ck.analysed(f)
    det = list(f.calls("scpiParser_detectProgramMessageUnit"))
    loops_ = [(h, body) for h, body in C.loops(f) if any(f.where[c.id][0].id in body for c in det)]
    st = K.site(f, "line-parsed-as-given", 0)
    if len(det) != 1 or not loops_:
        ck.anchor_lost("C13-T12", "SCPI_Parse: one unit detector call inside a loop (%d calls, %d loops)" % (len(det), len(loops_)))
        return
    body = set().union(*[b for _h, b in loops_])
    datap, lenp = f.params[1]["name"], f.params[2]["name"]
    a = C.call_args(det[0])
    # the function may walk the line with local copies of its parameters (`char * unit = data; int remaining = len;`): a local
    # whose only definition outside the unit loop is the parameter itself stands for it
    def copy_of(local, param):
        defs = []
        for n_ in f.nodes.values():
            if n_.k == "DeclStmt":
                for d in n_.get("decls", []):
                    if d["name"] == local and "init" in d:
                        defs.append((n_, f.nodes[d["init"]]))
        for n_, t in C.stores(f):
            if t.get("path") == local and n_.get("op") == "=" and (n_.id not in f.where or f.where[n_.id][0].id not in body):
                defs.append((n_, n_.child(1)))
        return bool(defs) and all(v.strip_all_casts().get("path") == param for _n, v in defs) and \
            not [1 for n_, t in C.stores(f) if t.get("path") == param]
    a1, a2 = a[1].strip_all_casts().get("path"), a[2].strip_all_casts().get("path")
    if a1 != datap and a1 and copy_of(a1, datap):
        datap = a1
    if a2 != lenp and a2 and copy_of(a2, lenp):
        lenp = a2
    if a[1].strip_all_casts().get("path") != datap or a[2].strip_all_casts().get("path") != lenp:
        ck.violated("C13-T12", st, K.loc(f, det[0]), "the unit detector is run on (`%s`, `%s`), not on the line handed in (`%s`, `%s`)"
                    % (a[1].src, a[2].src, datap, lenp))
        return
    # the local holding the detector's result
    res = None
    for n_, t in C.stores(f):
        if n_.get("op") == "=" and n_.child(1).strip_all_casts() is det[0]:
            res = t.get("path")
    for n_ in f.nodes.values():
        if n_.k == "DeclStmt":
            for d in n_.get("decls", []):
                if "init" in d and f.nodes[d["init"]].strip_all_casts() is det[0]:
                    res = d["name"]
    bad = None
    nst = 0
    for n_, t in C.stores(f):
        if t.get("path") not in (datap, lenp):
            continue
        nst += 1
        inside = n_.id in f.where and f.where[n_.id][0].id in body
        want_op = "+=" if t.get("path") == datap else "-="
        okk = inside and n_.get("op") == want_op and res is not None and n_.child(1).strip_all_casts().get("path") == res
        if not okk and bad is None:
            bad = n_
    if bad is not None:
        ck.violated("C13-T12", st, K.loc(f, bad),
                    "`%s` changes the line SCPI_Parse was given other than by the unit loop's own advance: bytes the caller counted are "
                    "dropped before the tokenizer sees them (a block whose last payload byte is 0x00 loses it and becomes incomplete)"
                    % bad.src[:60])
    else:
        ck.holds("C13-T12", st, K.loc(f, det[0]), "detector run on (%s, %s); %d store(s), all `%s += %s` / `%s -= %s` inside the unit loop"
                 % (datap, lenp, nst, datap, res, lenp, res))


def rule_t10(ck, prog):
    f = prog.fn("scpiParser_parseProgramData")
    if f is None:
        ck.anchor_lost("C13-T10", "scpiParser_parseProgramData")
        return
    ck.analysed(f)
    st = K.site(f, "trailing-white-space-consumed", 0)
    cur = f.params[0]["name"]
    try:
        sums = P.summarize(f, max_visits=2)
    except P.TooManyPaths:
        ck.undecided("C13-T10", st, K.loc(f), "too many paths")
        return
    bad = None
    n = 0
    for ps in sums:
        lex = [c for c in ps.calls if (c.get("callee") or "").startswith("scpiLex_") and C.call_args(c) and
               C.call_args(c)[0].strip_all_casts().get("path") == cur]
        data = [c for c in lex if c.get("callee") != "scpiLex_WhiteSpace"]
        if not data:
            continue
        n += 1
        if lex[-1].get("callee") != "scpiLex_WhiteSpace" and bad is None:
            bad = (ps, lex[-1])
    if bad:
        ck.violated("C13-T10", st, K.loc(f, bad[0].ret_node if bad[0].ret_node is not None else bad[1]),
                    "a path returns with %s as the last recogniser run on the cursor: white space between this program data and the "
                    "comma / terminator that follows is left unread, so `1 V ,2 V` is cut at the blank (unit flagged invalid, or -103 "
                    "from SCPI_Parameter)" % bad[1].get("callee"), {"path": bad[0].describe()[-5:]})
    elif n == 0:
        ck.anchor_lost("C13-T10", "scpiParser_parseProgramData: no path that runs a data recogniser on the cursor")
    else:
        ck.holds("C13-T10", st, K.loc(f), "%d paths, each ends with the white-space recogniser on `%s`" % (n, cur))


def _compound_spec(colons, mnems):
    """(sign of the result, helper calls in order) for 488.2's [:] mnemonic (: mnemonic)* given the helpers' outcomes;
    None when the script is used up (beyond the bound)"""
    calls = []
    ci = mi = 0

    def colon():
        nonlocal ci
        if ci >= len(colons):
            raise IndexError
        calls.append("colon")
        ci += 1
        return colons[ci - 1]

    def mnem():
        nonlocal mi
        if mi >= len(mnems):
            raise IndexError
        calls.append("mnemonic")
        mi += 1
        return mnems[mi - 1]
    try:
        first = colon()
        m = mnem()
        if m == 0:
            return (-1 if first else 0), calls
        if m < 0:
            return 1, calls           # the mnemonic runs up to the end of input: a complete header so far
        while True:
            if not colon():
                return 1, calls
            m = mnem()
            if m < 0:
                return 1, calls
            if m == 0:
                return -1, calls      # a colon that no mnemonic follows
    except IndexError:
        return None


def rule_t9(ck, prog, tier):
    from sa import interp as I
    import itertools
    f = prog.fn("skipCompoundProgramHeader")
    if f is None:
        ck.anchor_lost("C13-T9", "skipCompoundProgramHeader")
        return
    ck.analysed(f)
    st = K.site(f, "header-shape", 0)
    depth = 4 if tier == "thorough" else 3
    rows = {}
    bad = None
    stuck = None
    for colons in itertools.product((0, 1), repeat=depth):
        for mnems in itertools.product((-2, -1, 0, 1, 3), repeat=depth):
            want = _compound_spec(colons, mnems)
            if want is None:
                continue
            key = (tuple(colons[:want[1].count("colon")]), tuple(mnems[:want[1].count("mnemonic")]))
            if key in rows:
                continue
            ci, mi, calls = [0], [0], []

            def colon(m_, a_, ci=ci, calls=calls, colons=colons):
                if ci[0] >= len(colons):
                    raise I.Stuck("beyond the script")
                calls.append("colon")
                ci[0] += 1
                return colons[ci[0] - 1]

            def chr_(m_, a_, colon=colon):
                if len(a_) < 2 or a_[1] != ord(":"):
                    raise I.Stuck("skipChr for another character")
                return colon(m_, a_)

            def mnem(m_, a_, mi=mi, calls=calls, mnems=mnems):
                if mi[0] >= len(mnems):
                    raise I.Stuck("beyond the script")
                calls.append("mnemonic")
                mi[0] += 1
                return mnems[mi[0] - 1]
            try:
                got, _log = I.call(prog, f.name, [I.TOP], effects={"skipColon": colon, "skipChr": chr_, "skipProgramMnemonic": mnem},
                                   max_steps=20000)
            except I.Stuck as e:
                stuck = stuck or str(e)
                continue
            if I.unk(got):
                stuck = stuck or "the result is not determined by the helpers' outcomes"
                continue
            sign = (got > 0) - (got < 0)
            rows[key] = sign
            if (sign, calls) != (want[0], want[1]) and bad is None:
                bad = (key, sign, calls, want)
    names = {1: "a complete header", 0: "no header", -1: "an incomplete header"}
    if bad:
        key, sign, calls, want = bad
        ck.violated("C13-T9", st, K.loc(f),
                    "with leading colon %s and the mnemonic/colon outcomes %s / %s the skipper reports %s after consulting %s; "
                    "488.2 makes it %s after %s (a colon with no mnemonic behind it is an incomplete header wherever it stands)"
                    % (bool(key[0][0]), list(key[1]), list(key[0][1:]), names[sign], calls, names[want[0]], want[1]),
                    {"rows": len(rows)})
    elif stuck or len(rows) < 20:
        ck.undecided("C13-T9", st, K.loc(f), "the decision table cannot be extracted: %s (%d rows)" % (stuck, len(rows)))
    else:
        ck.holds("C13-T9", st, K.loc(f), "%d rows of (colon, mnemonic) outcomes up to %d mnemonics: [:] mnemonic (: mnemonic)*" % (len(rows), depth))


def run(ck, fb, tier):
    for cfg in fb.configs:
        ck.config = cfg
        prog = fb[cfg]
        S = K.summaries(prog)
        model = LexModel(prog, S)
        from . import c01
        c01.rule_l1_l2(ck, prog, S, model, "C13-B1", "C13-B2")
        c01.rule_l3_l4(ck, prog, S, model, "C13-B3", "C13-B4")
        rule_t1_t2(ck, prog, S, model)
        rule_t4(ck, prog, S, model)
        rule_t8(ck, prog, S, model)
        rule_t3(ck, prog, S)
        rule_t5(ck, prog)
        rule_t6(ck, prog)
        rule_t7(ck, prog)
        rule_t9(ck, prog, tier)
        rule_t10(ck, prog)
        rule_t11(ck, prog, model)
        rule_t12(ck, prog)
        rule_t5_detector(ck, prog, S)
    ck.trust("spec/char_classes.json (488.2 section 7 classes and the leniencies of src/scpi.g)",
             "<ctype.h> classifiers by their C-locale definition")
    if tier == "thorough":
        K.cross_config(ck, fb, "C13-XC", ['scpiParser_detectProgramMessageUnit', 'scpiLex_ArbitraryBlockProgramData', 'scpiLex_StringProgramData', 'scpiLex_NondecimalNumericData', 'scpiLex_ProgramHeader'])


TECHNIQUE = ("static analysis: path-sensitive abstract cursor simulation of every recogniser (all-or-nothing, extent "
             "agreement), exact character-set evaluation of predicate helpers and advance guards over the 8-bit domain, "
             "decision table of the unit detector")
LEVEL_TEXT = ("Clause-level static decision of the structural clauses of C13 for all inputs (the rules are per path / per "
              "byte value, not per input string). The language clause (exactly the longest 488.2 prefix) is not decided: "
              "it would need automaton extraction from the hand-written recognisers.")
LEVEL_NOTE = ("Trusted: clang CFG, extractor, spec/char_classes.json, C-locale <ctype.h>. Cursor-in-bounds obligations "
              "are shared with C01.")
DESIGN_REF = "DESIGN.md section 5, C13"
